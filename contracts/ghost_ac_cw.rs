// ---- Aho-Corasick correctness for the standard automaton, char-wise (NFA-level part generated from ghost_ac.rs by u8 -> char): the spec stream of the overlapping search over the
// double array equals the property-level semantics ("all occurrences, by end, longest first"), GIVEN the contract of the
// NFA fail/output passes (ac_fail, ac_outs: assumed, evaluated by the stand-in's NFA twin) ----
spec fn is_suffix(a: Seq<char>, b: Seq<char>) -> bool { a.len() <= b.len() && a =~= b.skip(b.len() - a.len()) }
spec fn t_node<V>(n: NfaBuilder<char, V>, q: Seq<char>) -> bool { walk(n, q).is_some() }

// label sequence from the root to state s
spec fn path<V>(n: NfaBuilder<char, V>, s: int) -> Seq<char>
    decreases s
{
    if s < 2 { Seq::empty() } else { let p = nfa_parent(n, s); if 0 <= p.0 < s { path(n, p.0).push(p.1) } else { Seq::empty() } }
}
proof fn lemma_walk_path<V>(n: NfaBuilder<char, V>, s: int)
    requires nfa_tree(n), 0 <= s < n.states@.len(), s != 1,
    ensures walk(n, path(n, s)) == Some(s), path(n, s).len() == nfa_depth(n, s),
    decreases s,
{
    if s >= 2 {
        let p = nfa_parent(n, s);
        assert(nfa_parent_ok(n, s, p));
        lemma_walk_path(n, p.0);
        let q = path(n, s);
        assert(q.drop_last() =~= path(n, p.0));
        assert(q.last() == p.1);
        assert(t_edges(n, p.0) == nfa_edges(n, p.0));
    } else {
        assert(s == 0);
    }
}
proof fn lemma_path_of_walk<V>(n: NfaBuilder<char, V>, q: Seq<char>)
    requires nfa_tree(n), trie_ok(n), walk(n, q).is_some(),
    ensures 0 <= walk(n, q).unwrap() < n.states@.len(), walk(n, q).unwrap() != 1, q == path(n, walk(n, q).unwrap()),
{
    lemma_walk_range(n, q);
    let s = walk(n, q).unwrap();
    lemma_walk_path(n, s);
    lemma_walk_inj(n, q, path(n, s));
}
// the trie is prefix closed
proof fn lemma_node_prefix<V>(n: NfaBuilder<char, V>, q: Seq<char>)
    requires t_node(n, q), q.len() > 0,
    ensures t_node(n, q.drop_last()),
{
}
proof fn lemma_suffix_trans(a: Seq<char>, b: Seq<char>, c: Seq<char>)
    requires is_suffix(a, b), is_suffix(b, c),
    ensures is_suffix(a, c),
{
    assert(a =~= c.skip(c.len() - a.len()));
}
// two suffixes of the same sequence: the shorter is a suffix of the longer
proof fn lemma_suffix_of_suffix(a: Seq<char>, b: Seq<char>, c: Seq<char>)
    requires is_suffix(a, c), is_suffix(b, c), a.len() <= b.len(),
    ensures is_suffix(a, b),
{
    assert(a =~= b.skip(b.len() - a.len()));
}
proof fn lemma_suffix_push(a: Seq<char>, b: Seq<char>, c: char)
    requires is_suffix(a, b),
    ensures is_suffix(a.push(c), b.push(c)),
{
    assert(a.push(c) =~= b.push(c).skip(b.push(c).len() - a.push(c).len()));
}
proof fn lemma_suffix_drop(q: Seq<char>, b: Seq<char>, c: char)
    requires is_suffix(q, b.push(c)), q.len() > 0,
    ensures q.last() == c, is_suffix(q.drop_last(), b),
{
    let bc = b.push(c);
    assert(q.last() == bc[bc.len() - 1]);
    assert(q.drop_last() =~= b.skip(b.len() - q.drop_last().len()));
}

// ASSUMED (build_fails): fail(s) is the state of the longest proper suffix of path(s) that is a trie node
spec fn fail_ok<V>(n: NfaBuilder<char, V>, s: int, f: int) -> bool {
    &&& 0 <= f < n.states@.len() && f != 1
    &&& is_suffix(path(n, f), path(n, s)) && path(n, f).len() < path(n, s).len()
    &&& forall|q: Seq<char>| is_suffix(q, path(n, s)) && q.len() < path(n, s).len() && #[trigger] t_node(n, q) ==> q.len() <= path(n, f).len()
}
#[verifier::opaque]
spec fn ac_fail<V>(n: NfaBuilder<char, V>) -> bool {
    forall|s: int| 2 <= s < n.states@.len() ==> fail_ok(n, s, (#[trigger] n.states@[s]).fail as int)
}
proof fn lemma_ac_fail<V>(n: NfaBuilder<char, V>, s: int)
    requires ac_fail(n), 2 <= s < n.states@.len(),
    ensures fail_ok(n, s, n.states@[s].fail as int),
{ reveal(ac_fail); }

// r is the state of the longest suffix of path(s)+c that is a trie node
#[verifier::opaque]
spec fn nd_ok<V>(n: NfaBuilder<char, V>, s: int, c: char, r: int) -> bool {
    let pc = path(n, s).push(c);
    &&& 0 <= r < n.states@.len() && r != 1
    &&& is_suffix(path(n, r), pc)
    &&& forall|q: Seq<char>| is_suffix(q, pc) && #[trigger] t_node(n, q) ==> q.len() <= path(n, r).len()
}

proof fn lemma_nd_edge<V>(n: NfaBuilder<char, V>, s: int, c: char)
    requires nfa_tree(n), trie_ok(n), 0 <= s < n.states@.len(), s != 1, nfa_edges(n, s).contains_key(c),
    ensures nd_ok(n, s, c, nfa_edges(n, s)[c] as int),
{
    reveal(nd_ok);
    let p = path(n, s); let pc = p.push(c);
    let r = nfa_edges(n, s)[c] as int;
    lemma_walk_path(n, s);
    assert(pc.drop_last() =~= p && pc.last() == c);
    assert(t_edges(n, s) == nfa_edges(n, s));
    assert(walk(n, pc) == Some(r));
    lemma_path_of_walk(n, pc);
    assert(path(n, r) == pc);
    assert(is_suffix(pc, pc));
}

proof fn lemma_nd_root<V>(n: NfaBuilder<char, V>, c: char)
    requires nfa_tree(n), trie_ok(n), !nfa_edges(n, 0).contains_key(c),
    ensures nd_ok(n, 0, c, 0),
{
    reveal(nd_ok);
    let pc = path(n, 0).push(c);
    assert(path(n, 0).len() == 0);
    assert(is_suffix(path(n, 0), pc));
    assert forall|q: Seq<char>| is_suffix(q, pc) && #[trigger] t_node(n, q) implies q.len() <= 0 by {
        if q.len() > 0 {
            assert(q.len() == 1);
            assert(q.drop_last().len() == 0);
            assert(walk(n, q.drop_last()) == Some(0int));
            assert(q.last() == pc[0]);
            assert(t_edges(n, 0) == nfa_edges(n, 0));
        }
    }
}

proof fn lemma_nd_step<V>(n: NfaBuilder<char, V>, s: int, c: char, f: int, r: int)
    requires nfa_tree(n), trie_ok(n), 2 <= s < n.states@.len(), !nfa_edges(n, s).contains_key(c), fail_ok(n, s, f), nd_ok(n, f, c, r),
    ensures nd_ok(n, s, c, r),
{
    reveal(nd_ok);
    let p = path(n, s); let pc = p.push(c);
    let pf = path(n, f);
    lemma_walk_path(n, s);
    lemma_suffix_push(pf, p, c);
    lemma_suffix_trans(path(n, r), pf.push(c), pc);
    assert forall|q: Seq<char>| is_suffix(q, pc) && #[trigger] t_node(n, q) implies q.len() <= path(n, r).len() by {
        if q.len() > 0 {
            lemma_suffix_drop(q, p, c);
            let q1 = q.drop_last();
            lemma_node_prefix(n, q);
            if q1.len() == p.len() {
                // q1 would be all of p: then s has the edge c
                assert(q1 =~= p);
                assert(walk(n, q1) == Some(s));
                assert(t_edges(n, s).contains_key(q.last()));
                assert(t_edges(n, s) == nfa_edges(n, s));
                assert(false);
            }
            assert(t_node(n, q1));
            assert(q1.len() <= pf.len());
            lemma_suffix_of_suffix(q1, pf, p);
            lemma_suffix_push(q1, pf, c);
            assert(q1.push(c) =~= q);
            assert(is_suffix(q, pf.push(c)));
        }
    }
}

// the structural hypotheses in one opaque bundle: the inductive lemmas below see only this atom
#[verifier::opaque]
spec fn ac_ctx0<V>(n: NfaBuilder<char, V>) -> bool { nfa_tree(n) && trie_ok(n) && nfa_links(n, false) && ac_fail(n) }

proof fn w_nd_unfold<V>(n: NfaBuilder<char, V>, s: int, c: char)
    requires ac_ctx0(n), 0 <= s < n.states@.len(), s != 1,
    ensures nfa_nd(n, s, c) == (if nfa_edges(n, s).contains_key(c) { nfa_edges(n, s)[c] as int } else if s == 0 { 0 } else { nfa_nd(n, n.states@[s].fail as int, c) }),
        0 <= nfa_nd(n, s, c) < n.states@.len(), nfa_nd(n, s, c) != 1,
        s >= 2 ==> 0 <= n.states@[s].fail < n.states@.len() && n.states@[s].fail != 1 && nfa_depth(n, n.states@[s].fail as int) < nfa_depth(n, s),
{
    reveal(ac_ctx0);
    lemma_nd_range(n, s, c);
}
proof fn w_nd_edge<V>(n: NfaBuilder<char, V>, s: int, c: char)
    requires ac_ctx0(n), 0 <= s < n.states@.len(), s != 1, nfa_edges(n, s).contains_key(c),
    ensures nd_ok(n, s, c, nfa_edges(n, s)[c] as int),
{ reveal(ac_ctx0); lemma_nd_edge(n, s, c); }
proof fn w_nd_root<V>(n: NfaBuilder<char, V>, c: char)
    requires ac_ctx0(n), !nfa_edges(n, 0).contains_key(c),
    ensures nd_ok(n, 0, c, 0),
{ reveal(ac_ctx0); lemma_nd_root(n, c); }
proof fn w_nd_step<V>(n: NfaBuilder<char, V>, s: int, c: char, r: int)
    requires ac_ctx0(n), 2 <= s < n.states@.len(), !nfa_edges(n, s).contains_key(c), nd_ok(n, n.states@[s].fail as int, c, r),
    ensures nd_ok(n, s, c, r),
{
    reveal(ac_ctx0);
    lemma_ac_fail(n, s);
    lemma_nd_step(n, s, c, n.states@[s].fail as int, r);
}

// the goto/fail transition computes the longest suffix of path(s)+c that is a trie node
proof fn lemma_nd_longest<V>(n: NfaBuilder<char, V>, s: int, c: char)
    requires ac_ctx0(n), 0 <= s < n.states@.len(), s != 1,
    ensures nd_ok(n, s, c, nfa_nd(n, s, c)),
    decreases nfa_depth(n, s),
{
    w_nd_unfold(n, s, c);
    if nfa_edges(n, s).contains_key(c) {
        w_nd_edge(n, s, c);
    } else if s == 0 {
        w_nd_root(n, c);
    } else {
        let f = n.states@[s].fail as int;
        lemma_nd_longest(n, f, c);
        w_nd_step(n, s, c, nfa_nd(n, f, c));
    }
}

// ---- the state reached from the root after reading w is the longest suffix of w that is a trie node ----
spec fn ls<V>(n: NfaBuilder<char, V>, w: Seq<char>) -> int
    decreases w.len()
{
    if w.len() == 0 { 0 } else { nfa_nd(n, ls(n, w.drop_last()), w.last()) }
}
// r is the state of the longest suffix of w that is a trie node
#[verifier::opaque]
spec fn ls_ok<V>(n: NfaBuilder<char, V>, w: Seq<char>, r: int) -> bool {
    &&& 0 <= r < n.states@.len() && r != 1
    &&& is_suffix(path(n, r), w)
    &&& forall|q: Seq<char>| is_suffix(q, w) && #[trigger] t_node(n, q) ==> q.len() <= path(n, r).len()
}
proof fn lemma_ls_step<V>(n: NfaBuilder<char, V>, w: Seq<char>, c: char, x: int, r: int)
    requires nfa_tree(n), trie_ok(n), ls_ok(n, w, x), nd_ok(n, x, c, r),
    ensures ls_ok(n, w.push(c), r),
{
    reveal(nd_ok); reveal(ls_ok);
    let p = path(n, x); let wc = w.push(c);
    lemma_suffix_push(p, w, c);
    lemma_suffix_trans(path(n, r), p.push(c), wc);
    assert forall|q: Seq<char>| is_suffix(q, wc) && #[trigger] t_node(n, q) implies q.len() <= path(n, r).len() by {
        if q.len() > 0 {
            lemma_suffix_drop(q, w, c);
            let q1 = q.drop_last();
            lemma_node_prefix(n, q);
            assert(t_node(n, q1));
            assert(q1.len() <= p.len());
            lemma_suffix_of_suffix(q1, p, w);
            lemma_suffix_push(q1, p, c);
            assert(q1.push(c) =~= q);
            assert(is_suffix(q, p.push(c)));
        }
    }
}
proof fn lemma_ls_empty<V>(n: NfaBuilder<char, V>, w: Seq<char>)
    requires ac_ctx0(n), w.len() == 0,
    ensures ls_ok(n, w, 0),
{
    reveal(ls_ok); reveal(ac_ctx0);
    assert(path(n, 0).len() == 0);
    assert(is_suffix(path(n, 0), w));
}
proof fn lemma_ls_range<V>(n: NfaBuilder<char, V>, w: Seq<char>, r: int)
    requires ls_ok(n, w, r),
    ensures 0 <= r < n.states@.len(), r != 1,
{ reveal(ls_ok); }
proof fn w_ls_step<V>(n: NfaBuilder<char, V>, w: Seq<char>, c: char, x: int, r: int)
    requires ac_ctx0(n), ls_ok(n, w, x), nd_ok(n, x, c, r),
    ensures ls_ok(n, w.push(c), r),
{ reveal(ac_ctx0); lemma_ls_step(n, w, c, x, r); }
proof fn lemma_ls<V>(n: NfaBuilder<char, V>, w: Seq<char>)
    requires ac_ctx0(n),
    ensures ls_ok(n, w, ls(n, w)),
    decreases w.len(),
{
    if w.len() == 0 {
        lemma_ls_empty(n, w);
    } else {
        let w1 = w.drop_last(); let c = w.last();
        lemma_ls(n, w1);
        let x = ls(n, w1);
        lemma_ls_range(n, w1, x);
        lemma_nd_longest(n, x, c);
        w_ls_step(n, w1, c, x, nfa_nd(n, x, c));
        assert(w1.push(c) =~= w);
    }
}

// ---- property-level semantics of the overlapping search (C01): at every end position, all registered patterns
// that end there, longest first; end positions in increasing order ----
spec fn reg_match<V>(n: NfaBuilder<char, V>, q: Seq<char>, end: nat) -> Match<V> {
    let o = n.states@[walk(n, q).unwrap()].output.unwrap();
    Match { length: o.1@ as usize, end: end as usize, value: o.0 }
}
// matches for the registered patterns among the suffixes p[i..], p[i+1..], ... (longest first)
spec fn suf_matches<V>(n: NfaBuilder<char, V>, p: Seq<char>, i: nat, end: nat) -> Seq<Match<V>>
    decreases p.len() - i
{
    if i >= p.len() { Seq::empty() } else {
        (if is_registered(n, p.skip(i as int)) { seq![reg_match(n, p.skip(i as int), end)] } else { Seq::empty() }) + suf_matches(n, p, i + 1, end)
    }
}
// suffixes of w that are longer than its longest trie-node suffix p are not registered: both give the same matches
proof fn lemma_suf_shift<V>(n: NfaBuilder<char, V>, w: Seq<char>, p: Seq<char>, j: nat, end: nat)
    requires is_suffix(p, w), j <= p.len(),
    ensures suf_matches(n, w, (w.len() - p.len() + j) as nat, end) == suf_matches(n, p, j, end),
    decreases p.len() - j,
{
    let d = (w.len() - p.len()) as nat;
    if j < p.len() {
        assert(w.skip((d + j) as int) =~= p.skip(j as int));
        lemma_suf_shift(n, w, p, j + 1, end);
    }
}
proof fn lemma_suf_longest<V>(n: NfaBuilder<char, V>, w: Seq<char>, r: int, i: nat, end: nat)
    requires ls_ok(n, w, r), i <= w.len() - path(n, r).len(),
    ensures suf_matches(n, w, i, end) == suf_matches(n, path(n, r), 0, end),
    decreases w.len() - path(n, r).len() - i,
{
    reveal(ls_ok);
    let p = path(n, r);
    let d = (w.len() - p.len()) as nat;
    if i < d {
        let q = w.skip(i as int);
        assert(is_suffix(q, w));
        assert(!t_node(n, q));
        assert(!is_registered(n, q));
        lemma_suf_longest(n, w, r, i + 1, end);
        assert(suf_matches(n, w, i, end) =~= suf_matches(n, w, i + 1, end));
    } else {
        lemma_suf_shift(n, w, p, 0, end);
    }
}
proof fn lemma_ls_len<V>(n: NfaBuilder<char, V>, w: Seq<char>, r: int)
    requires ls_ok(n, w, r),
    ensures path(n, r).len() <= w.len(),
{ reveal(ls_ok); }

// ASSUMED (build_outputs): the output chain of a state lists the registered patterns that are suffixes of its path, longest first
#[verifier::opaque]
spec fn ac_outs<V>(n: NfaBuilder<char, V>) -> bool {
    forall|s: int, end: nat| 0 <= s < n.states@.len() && s != 1 ==>
        #[trigger] chain(n.outputs@, opt_n(n.states@[s].output_pos), end) == suf_matches(n, path(n, s), 0, end)
}
proof fn lemma_ac_outs<V>(n: NfaBuilder<char, V>, s: int, end: nat)
    requires ac_outs(n), 0 <= s < n.states@.len(), s != 1,
    ensures chain(n.outputs@, opt_n(n.states@[s].output_pos), end) == suf_matches(n, path(n, s), 0, end),
{ reveal(ac_outs); }


// what is reported after the characters `done` followed by c: the state and its output chain
proof fn lemma_pos_cw<V>(n: NfaBuilder<char, V>, done: Seq<char>, c: char, end: nat)
    requires nfa_tree(n), trie_ok(n), nfa_links(n, false), ac_fail(n), ac_outs(n),
    ensures ({ let t = ls(n, done.push(c));
        &&& 0 <= t < n.states@.len() && t != 1
        &&& 0 <= ls(n, done) < n.states@.len() && ls(n, done) != 1
        &&& t == nfa_nd(n, ls(n, done), c)
        &&& chain(n.outputs@, opt_n(n.states@[t].output_pos), end) == suf_matches(n, done.push(c), 0, end) }),
{
    let w2 = done.push(c);
    assert(w2.drop_last() =~= done && w2.last() == c);
    let t = ls(n, w2);
    assert(ac_ctx0(n)) by { reveal(ac_ctx0); }
    lemma_ls(n, w2);
    lemma_ls(n, done);
    lemma_ls_range(n, w2, t);
    lemma_ls_range(n, done, ls(n, done));
    lemma_ls_len(n, w2, t);
    lemma_ac_outs(n, t, end);
    lemma_suf_longest(n, w2, t, 0, end);
}

// ---- property-level semantics of the three standard searches over the characters the UTF-8 table decodes ----
// `done`: characters read so far; rest: undecoded bytes; k: byte offset of rest in the haystack
spec fn sem_ovl_cw<V>(n: NfaBuilder<char, V>, done: Seq<char>, rest: Seq<u8>, k: nat) -> Seq<Match<V>>
    decreases rest.len()
{
    if rest.len() == 0 || u8len(rest[0]) > rest.len() { Seq::empty() } else {
        let w = u8len(rest[0]);
        let d2 = done.push(char_of(u8code(rest)));
        suf_matches(n, d2, 0, k + w) + sem_ovl_cw(n, d2, rest.skip(w as int), k + w)
    }
}
spec fn first_of<V>(s: Seq<Match<V>>) -> Seq<Match<V>> { if s.len() == 0 { Seq::empty() } else { seq![s[0]] } }
spec fn sem_nosuf_cw<V>(n: NfaBuilder<char, V>, done: Seq<char>, rest: Seq<u8>, k: nat) -> Seq<Match<V>>
    decreases rest.len()
{
    if rest.len() == 0 || u8len(rest[0]) > rest.len() { Seq::empty() } else {
        let w = u8len(rest[0]);
        let d2 = done.push(char_of(u8code(rest)));
        first_of(suf_matches(n, d2, 0, k + w)) + sem_nosuf_cw(n, d2, rest.skip(w as int), k + w)
    }
}

proof fn lemma_chain_head<V>(outs: Seq<Output<V>>, o: nat, end: nat)
    requires o <= outs.len(), forall|j: int| 0 <= j < outs.len() ==> out_parent(#[trigger] outs[j]) <= j,
    ensures o == 0 ==> chain(outs, o, end).len() == 0,
        o != 0 ==> chain(outs, o, end).len() > 0 && chain(outs, o, end)[0] == mk_match(outs[o - 1], end),
{
    if o != 0 { assert(out_parent(outs[o - 1]) <= o - 1); }
}

// everything the stream theorems need, as one opaque atom
#[verifier::opaque]
spec fn ac_ctx_cw<V>(n: NfaBuilder<char, V>, st: Seq<State>, tb: Seq<u32>, asz: u32, idmap: Seq<u32>) -> bool {
    &&& nfa_tree(n) && trie_ok(n) && nfa_links(n, false) && nfa_outs_ok(n) && ac_fail(n) && ac_outs(n)
    &&& cw_encodes(st, tb, n, idmap) && cw_wf(st, tb, false) && mapper_covers(n, tb, asz)
}
// one decoded character: the array moves to the image of the NFA successor, which reports the semantic matches
proof fn w_step_cw<V>(n: NfaBuilder<char, V>, st: Seq<State>, tb: Seq<u32>, asz: u32, idmap: Seq<u32>, done: Seq<char>, c: char, end: nat)
    requires ac_ctx_cw(n, st, tb, asz, idmap),
    ensures ({ let s = ls(n, done); let t = ls(n, done.push(c));
        &&& 0 <= s < n.states@.len() && s != 1 && 0 <= t < n.states@.len() && t != 1
        &&& cw_delta(st, tb, idmap[s] as int, c as u32) == idmap[t] as int
        &&& cw_opos(st[idmap[t] as int]) == opt_n(n.states@[t].output_pos)
        &&& chain(n.outputs@, cw_opos(st[idmap[t] as int]), end) == suf_matches(n, done.push(c), 0, end)
        &&& cw_opos(st[idmap[t] as int]) <= n.outputs@.len()
        &&& (cw_opos(st[idmap[t] as int]) == 0 ==> suf_matches(n, done.push(c), 0, end).len() == 0)
        &&& (cw_opos(st[idmap[t] as int]) != 0 ==> suf_matches(n, done.push(c), 0, end).len() > 0
                && suf_matches(n, done.push(c), 0, end)[0] == mk_match(n.outputs@[cw_opos(st[idmap[t] as int]) - 1], end)) }),
{
    reveal(ac_ctx_cw);
    lemma_pos_cw(n, done, c, end);
    let s = ls(n, done); let t = ls(n, done.push(c));
    lemma_sim_delta_cw(n, st, tb, asz, idmap, s, c);
    lemma_enc_basic(st, tb, n, idmap, t);
    let o = opt_n(n.states@[t].output_pos);
    assert(o <= n.outputs@.len());
    lemma_chain_head(n.outputs@, o, end);
}

// C01 char-wise
proof fn lemma_ovl_cw<V>(n: NfaBuilder<char, V>, st: Seq<State>, tb: Seq<u32>, asz: u32, idmap: Seq<u32>, done: Seq<char>, rest: Seq<u8>, k: nat)
    requires ac_ctx_cw(n, st, tb, asz, idmap), utf8_ok(rest),
    ensures cw_ovl_scan(st, tb, n.outputs@, idmap[ls(n, done)] as int, rest, k) == sem_ovl_cw(n, done, rest, k),
    decreases rest.len(),
{
    if !(rest.len() == 0 || u8len(rest[0]) > rest.len()) {
        let w = u8len(rest[0]);
        let v = u8code(rest);
        let c = char_of(v);
        assert(is_scalar(v));
        assert(c as u32 == v);
        w_step_cw(n, st, tb, asz, idmap, done, c, k + w);
        lemma_ovl_cw(n, st, tb, asz, idmap, done.push(c), rest.skip(w as int), k + w);
    }
}
// C05 char-wise
proof fn lemma_nosuf_cw<V>(n: NfaBuilder<char, V>, st: Seq<State>, tb: Seq<u32>, asz: u32, idmap: Seq<u32>, done: Seq<char>, rest: Seq<u8>, k: nat)
    requires ac_ctx_cw(n, st, tb, asz, idmap), utf8_ok(rest),
    ensures cw_nosuf_scan(st, tb, n.outputs@, idmap[ls(n, done)] as int, rest, k) == sem_nosuf_cw(n, done, rest, k),
    decreases rest.len(),
{
    if !(rest.len() == 0 || u8len(rest[0]) > rest.len()) {
        let w = u8len(rest[0]);
        let v = u8code(rest);
        let c = char_of(v);
        assert(is_scalar(v));
        assert(c as u32 == v);
        w_step_cw(n, st, tb, asz, idmap, done, c, k + w);
        lemma_nosuf_cw(n, st, tb, asz, idmap, done.push(c), rest.skip(w as int), k + w);
    }
}
proof fn theorem_c01_c05_cw<V>(n: NfaBuilder<char, V>, st: Seq<State>, tb: Seq<u32>, asz: u32, idmap: Seq<u32>, hay: Seq<u8>)
    requires nfa_tree(n), trie_ok(n), nfa_links(n, false), nfa_outs_ok(n), ac_fail(n), ac_outs(n),
        cw_encodes(st, tb, n, idmap), cw_wf(st, tb, false), mapper_covers(n, tb, asz), utf8_ok(hay),
    ensures cw_ovl_scan(st, tb, n.outputs@, 0, hay, 0) == sem_ovl_cw(n, Seq::<char>::empty(), hay, 0),
        cw_nosuf_scan(st, tb, n.outputs@, 0, hay, 0) == sem_nosuf_cw(n, Seq::<char>::empty(), hay, 0),
{
    assert(ac_ctx_cw(n, st, tb, asz, idmap)) by { reveal(ac_ctx_cw); }
    lemma_enc_basic(st, tb, n, idmap, 0);
    assert(ls(n, Seq::<char>::empty()) == 0);
    lemma_ovl_cw(n, st, tb, asz, idmap, Seq::<char>::empty(), hay, 0);
    lemma_nosuf_cw(n, st, tb, asz, idmap, Seq::<char>::empty(), hay, 0);
}

// ---- C02 char-wise: the occurrence inside the unread text that ends first (longest if several), then resume after it ----
spec fn sem_first_cw<V>(n: NfaBuilder<char, V>, done: Seq<char>, rest: Seq<u8>, cnt: nat) -> Option<(nat, Seq<char>)>
    decreases rest.len()
{
    if rest.len() == 0 || u8len(rest[0]) > rest.len() { None } else {
        let w = u8len(rest[0]);
        let d2 = done.push(char_of(u8code(rest)));
        if suf_matches(n, d2, 0, 0).len() > 0 { Some((cnt + w, d2)) } else { sem_first_cw(n, d2, rest.skip(w as int), cnt + w) }
    }
}
spec fn sem_find_cw<V>(n: NfaBuilder<char, V>, rest: Seq<u8>, k: nat) -> Seq<Match<V>>
    decreases rest.len()
{
    match sem_first_cw(n, Seq::<char>::empty(), rest, 0) {
        None => Seq::empty(),
        Some(p) => if p.0 == 0 || p.0 > rest.len() { Seq::empty() } else {
            seq![suf_matches(n, p.1, 0, k + p.0)[0]] + sem_find_cw(n, rest.skip(p.0 as int), k + p.0)
        },
    }
}
proof fn lemma_suf_len<V>(n: NfaBuilder<char, V>, p: Seq<char>, i: nat, e1: nat, e2: nat)
    ensures suf_matches(n, p, i, e1).len() == suf_matches(n, p, i, e2).len(),
    decreases p.len() - i,
{
    if i < p.len() { lemma_suf_len(n, p, i + 1, e1, e2); }
}
// first reporting position over the array == first semantic position; the text after it is still well formed
proof fn lemma_find_first_cw<V>(n: NfaBuilder<char, V>, st: Seq<State>, tb: Seq<u32>, asz: u32, idmap: Seq<u32>, done: Seq<char>, rest: Seq<u8>, cnt: nat)
    requires ac_ctx_cw(n, st, tb, asz, idmap), utf8_ok(rest),
    ensures (match sem_first_cw(n, done, rest, cnt) {
            None => cw_find_first(st, tb, idmap[ls(n, done)] as int, rest, cnt).is_none(),
            Some(p) => cw_find_first(st, tb, idmap[ls(n, done)] as int, rest, cnt) == Some((p.0, idmap[ls(n, p.1)] as int))
                && cnt < p.0 <= cnt + rest.len() && utf8_ok(rest.skip(p.0 - cnt))
                && 0 <= ls(n, p.1) < n.states@.len() && ls(n, p.1) != 1
                && suf_matches(n, p.1, 0, 0).len() > 0,
        }),
    decreases rest.len(),
{
    if !(rest.len() == 0 || u8len(rest[0]) > rest.len()) {
        let w = u8len(rest[0]);
        let v = u8code(rest);
        let c = char_of(v);
        assert(is_scalar(v));
        assert(c as u32 == v);
        let d2 = done.push(c);
        w_step_cw(n, st, tb, asz, idmap, done, c, 0);
        if suf_matches(n, d2, 0, 0).len() > 0 {
            assert(rest.skip(cnt + w - cnt) =~= rest.skip(w as int));
        } else {
            lemma_find_first_cw(n, st, tb, asz, idmap, d2, rest.skip(w as int), cnt + w);
            match sem_first_cw(n, d2, rest.skip(w as int), cnt + w) {
                None => {}
                Some(p) => { assert(rest.skip(w as int).skip(p.0 - (cnt + w)) =~= rest.skip(p.0 - cnt)); }
            }
        }
    }
}
// the match reported for the characters d (reached state ls(d)), stamped with end
proof fn w_head_cw<V>(n: NfaBuilder<char, V>, st: Seq<State>, tb: Seq<u32>, asz: u32, idmap: Seq<u32>, d: Seq<char>, end: nat)
    requires ac_ctx_cw(n, st, tb, asz, idmap), d.len() > 0, suf_matches(n, d, 0, 0).len() > 0,
    ensures ({ let t = ls(n, d); let o = cw_opos(st[idmap[t] as int]);
        o != 0 && o <= n.outputs@.len() && mk_match(n.outputs@[o - 1], end) == suf_matches(n, d, 0, end)[0] }),
{
    let d1 = d.drop_last(); let c = d.last();
    assert(d1.push(c) =~= d);
    w_step_cw(n, st, tb, asz, idmap, d1, c, end);
    lemma_suf_len(n, d, 0, 0, end);
}
proof fn lemma_first_nonempty<V>(n: NfaBuilder<char, V>, done: Seq<char>, rest: Seq<u8>, cnt: nat)
    ensures sem_first_cw(n, done, rest, cnt).is_some() ==> sem_first_cw(n, done, rest, cnt).unwrap().1.len() > 0,
    decreases rest.len(),
{
    if !(rest.len() == 0 || u8len(rest[0]) > rest.len()) {
        let w = u8len(rest[0]);
        let d2 = done.push(char_of(u8code(rest)));
        if !(suf_matches(n, d2, 0, 0).len() > 0) { lemma_first_nonempty(n, d2, rest.skip(w as int), cnt + w); }
    }
}
proof fn lemma_find_cw<V>(n: NfaBuilder<char, V>, st: Seq<State>, tb: Seq<u32>, asz: u32, idmap: Seq<u32>, rest: Seq<u8>, k: nat)
    requires ac_ctx_cw(n, st, tb, asz, idmap), utf8_ok(rest), idmap[0] == 0,
    ensures cw_find_stream(st, tb, n.outputs@, rest, k) == sem_find_cw(n, rest, k),
    decreases rest.len(),
{
    let e = Seq::<char>::empty();
    assert(ls(n, e) == 0);
    lemma_find_first_cw(n, st, tb, asz, idmap, e, rest, 0);
    lemma_first_nonempty(n, e, rest, 0);
    match sem_first_cw(n, e, rest, 0) {
        None => {}
        Some(p) => {
            w_head_cw(n, st, tb, asz, idmap, p.1, k + p.0);
            assert(rest.skip(p.0 - 0) =~= rest.skip(p.0 as int));
            lemma_find_cw(n, st, tb, asz, idmap, rest.skip(p.0 as int), k + p.0);
        }
    }
}
proof fn theorem_c02_cw<V>(n: NfaBuilder<char, V>, st: Seq<State>, tb: Seq<u32>, asz: u32, idmap: Seq<u32>, hay: Seq<u8>)
    requires nfa_tree(n), trie_ok(n), nfa_links(n, false), nfa_outs_ok(n), ac_fail(n), ac_outs(n),
        cw_encodes(st, tb, n, idmap), cw_wf(st, tb, false), mapper_covers(n, tb, asz), utf8_ok(hay),
    ensures cw_find_stream(st, tb, n.outputs@, hay, 0) == sem_find_cw(n, hay, 0),
{
    assert(ac_ctx_cw(n, st, tb, asz, idmap)) by { reveal(ac_ctx_cw); }
    lemma_enc_basic(st, tb, n, idmap, 0);
    lemma_find_cw(n, st, tb, asz, idmap, hay, 0);
}
