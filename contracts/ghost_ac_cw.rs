//@include_subst ghost_ac_nfa.rs u8=char
//@include ghost_sem_cw.rs


// what is reported after the characters `done` followed by c: the state and its output chain
proof fn lemma_pos_cw<V>(n: NfaBuilder<char, V>, done: Seq<char>, c: char, end: nat)
    requires nfa_tree(n), trie_ok(n), nfa_links(n, false), ac_fail(n), ac_outs(n),
    ensures ({ let t = ls(n, done.push(c));
        &&& 0 <= t < n.states@.len() && t != 1
        &&& 0 <= ls(n, done) < n.states@.len() && ls(n, done) != 1
        &&& t == nfa_nd(n, ls(n, done), c)
        &&& chain(n.outputs@, opt_n(n.states@[t].output_pos), end) == suf_matches(n, done.push(c), 0, end) }),
{
    let w2 = done.push(c);
    assert(w2.drop_last() =~= done && w2.last() == c);
    let t = ls(n, w2);
    assert(ac_ctx0(n)) by { reveal(ac_ctx0); }
    lemma_ls(n, w2);
    lemma_ls(n, done);
    lemma_ls_range(n, w2, t);
    lemma_ls_range(n, done, ls(n, done));
    lemma_ls_len(n, w2, t);
    lemma_ac_outs(n, t, end);
    lemma_suf_longest(n, w2, t, 0, end);
}

// ---- property-level semantics of the three standard searches over the characters the UTF-8 table decodes ----
// `done`: characters read so far; rest: undecoded bytes; k: byte offset of rest in the haystack

proof fn lemma_chain_head<V>(outs: Seq<Output<V>>, o: nat, end: nat)
    requires o <= outs.len(), forall|j: int| 0 <= j < outs.len() ==> out_parent(#[trigger] outs[j]) <= j,
    ensures o == 0 ==> chain(outs, o, end).len() == 0,
        o != 0 ==> chain(outs, o, end).len() > 0 && chain(outs, o, end)[0] == mk_match(outs[o - 1], end),
{
    if o != 0 { assert(out_parent(outs[o - 1]) <= o - 1); }
}

// everything the stream theorems need, as one opaque atom
#[verifier::opaque]
spec fn ac_ctx_cw<V>(n: NfaBuilder<char, V>, st: Seq<State>, tb: Seq<u32>, asz: u32, idmap: Seq<u32>) -> bool {
    &&& nfa_tree(n) && trie_ok(n) && nfa_links(n, false) && nfa_outs_ok(n) && ac_fail(n) && ac_outs(n)
    &&& cw_encodes(st, tb, n, idmap) && cw_wf(st, tb, false) && mapper_covers(n, tb, asz)
}
// one decoded character: the array moves to the image of the NFA successor, which reports the semantic matches
proof fn w_step_cw<V>(n: NfaBuilder<char, V>, st: Seq<State>, tb: Seq<u32>, asz: u32, idmap: Seq<u32>, done: Seq<char>, c: char, end: nat)
    requires ac_ctx_cw(n, st, tb, asz, idmap),
    ensures ({ let s = ls(n, done); let t = ls(n, done.push(c));
        &&& 0 <= s < n.states@.len() && s != 1 && 0 <= t < n.states@.len() && t != 1
        &&& cw_delta(st, tb, idmap[s] as int, c as u32) == idmap[t] as int
        &&& cw_opos(st[idmap[t] as int]) == opt_n(n.states@[t].output_pos)
        &&& chain(n.outputs@, cw_opos(st[idmap[t] as int]), end) == suf_matches(n, done.push(c), 0, end)
        &&& cw_opos(st[idmap[t] as int]) <= n.outputs@.len()
        &&& (cw_opos(st[idmap[t] as int]) == 0 ==> suf_matches(n, done.push(c), 0, end).len() == 0)
        &&& (cw_opos(st[idmap[t] as int]) != 0 ==> suf_matches(n, done.push(c), 0, end).len() > 0
                && suf_matches(n, done.push(c), 0, end)[0] == mk_match(n.outputs@[cw_opos(st[idmap[t] as int]) - 1], end)) }),
{
    reveal(ac_ctx_cw);
    lemma_pos_cw(n, done, c, end);
    let s = ls(n, done); let t = ls(n, done.push(c));
    lemma_sim_delta_cw(n, st, tb, asz, idmap, s, c);
    lemma_enc_basic(st, tb, n, idmap, t);
    let o = opt_n(n.states@[t].output_pos);
    assert(o <= n.outputs@.len());
    lemma_chain_head(n.outputs@, o, end);
}

// C01 char-wise
proof fn lemma_ovl_cw<V>(n: NfaBuilder<char, V>, st: Seq<State>, tb: Seq<u32>, asz: u32, idmap: Seq<u32>, done: Seq<char>, rest: Seq<u8>, k: nat)
    requires ac_ctx_cw(n, st, tb, asz, idmap), utf8_ok(rest),
    ensures cw_ovl_scan(st, tb, n.outputs@, idmap[ls(n, done)] as int, rest, k) == sem_ovl_cw(n, done, rest, k),
    decreases rest.len(),
{
    if !(rest.len() == 0 || u8len(rest[0]) > rest.len()) {
        let w = u8len(rest[0]);
        let v = u8code(rest);
        let c = char_of(v);
        assert(is_scalar(v));
        assert(c as u32 == v);
        w_step_cw(n, st, tb, asz, idmap, done, c, k + w);
        lemma_ovl_cw(n, st, tb, asz, idmap, done.push(c), rest.skip(w as int), k + w);
    }
}
// C05 char-wise
proof fn lemma_nosuf_cw<V>(n: NfaBuilder<char, V>, st: Seq<State>, tb: Seq<u32>, asz: u32, idmap: Seq<u32>, done: Seq<char>, rest: Seq<u8>, k: nat)
    requires ac_ctx_cw(n, st, tb, asz, idmap), utf8_ok(rest),
    ensures cw_nosuf_scan(st, tb, n.outputs@, idmap[ls(n, done)] as int, rest, k) == sem_nosuf_cw(n, done, rest, k),
    decreases rest.len(),
{
    if !(rest.len() == 0 || u8len(rest[0]) > rest.len()) {
        let w = u8len(rest[0]);
        let v = u8code(rest);
        let c = char_of(v);
        assert(is_scalar(v));
        assert(c as u32 == v);
        w_step_cw(n, st, tb, asz, idmap, done, c, k + w);
        lemma_nosuf_cw(n, st, tb, asz, idmap, done.push(c), rest.skip(w as int), k + w);
    }
}
proof fn theorem_c01_c05_cw<V>(n: NfaBuilder<char, V>, st: Seq<State>, tb: Seq<u32>, asz: u32, idmap: Seq<u32>, hay: Seq<u8>)
    requires nfa_tree(n), trie_ok(n), nfa_links(n, false), nfa_outs_ok(n), ac_fail(n), ac_outs(n),
        cw_encodes(st, tb, n, idmap), cw_wf(st, tb, false), mapper_covers(n, tb, asz), utf8_ok(hay),
    ensures cw_ovl_scan(st, tb, n.outputs@, 0, hay, 0) == sem_ovl_cw(n, Seq::<char>::empty(), hay, 0),
        cw_nosuf_scan(st, tb, n.outputs@, 0, hay, 0) == sem_nosuf_cw(n, Seq::<char>::empty(), hay, 0),
{
    assert(ac_ctx_cw(n, st, tb, asz, idmap)) by { reveal(ac_ctx_cw); }
    lemma_enc_basic(st, tb, n, idmap, 0);
    assert(ls(n, Seq::<char>::empty()) == 0);
    lemma_ovl_cw(n, st, tb, asz, idmap, Seq::<char>::empty(), hay, 0);
    lemma_nosuf_cw(n, st, tb, asz, idmap, Seq::<char>::empty(), hay, 0);
}

// ---- C02 char-wise: the occurrence inside the unread text that ends first (longest if several), then resume after it ----
// first reporting position over the array == first semantic position; the text after it is still well formed
proof fn lemma_find_first_cw<V>(n: NfaBuilder<char, V>, st: Seq<State>, tb: Seq<u32>, asz: u32, idmap: Seq<u32>, done: Seq<char>, rest: Seq<u8>, cnt: nat)
    requires ac_ctx_cw(n, st, tb, asz, idmap), utf8_ok(rest),
    ensures (match sem_first_cw(n, done, rest, cnt) {
            None => cw_find_first(st, tb, idmap[ls(n, done)] as int, rest, cnt).is_none(),
            Some(p) => cw_find_first(st, tb, idmap[ls(n, done)] as int, rest, cnt) == Some((p.0, idmap[ls(n, p.1)] as int))
                && cnt < p.0 <= cnt + rest.len() && utf8_ok(rest.skip(p.0 - cnt))
                && 0 <= ls(n, p.1) < n.states@.len() && ls(n, p.1) != 1
                && suf_matches(n, p.1, 0, 0).len() > 0,
        }),
    decreases rest.len(),
{
    if !(rest.len() == 0 || u8len(rest[0]) > rest.len()) {
        let w = u8len(rest[0]);
        let v = u8code(rest);
        let c = char_of(v);
        assert(is_scalar(v));
        assert(c as u32 == v);
        let d2 = done.push(c);
        w_step_cw(n, st, tb, asz, idmap, done, c, 0);
        if suf_matches(n, d2, 0, 0).len() > 0 {
            assert(rest.skip(cnt + w - cnt) =~= rest.skip(w as int));
        } else {
            lemma_find_first_cw(n, st, tb, asz, idmap, d2, rest.skip(w as int), cnt + w);
            match sem_first_cw(n, d2, rest.skip(w as int), cnt + w) {
                None => {}
                Some(p) => { assert(rest.skip(w as int).skip(p.0 - (cnt + w)) =~= rest.skip(p.0 - cnt)); }
            }
        }
    }
}
// the match reported for the characters d (reached state ls(d)), stamped with end
proof fn w_head_cw<V>(n: NfaBuilder<char, V>, st: Seq<State>, tb: Seq<u32>, asz: u32, idmap: Seq<u32>, d: Seq<char>, end: nat)
    requires ac_ctx_cw(n, st, tb, asz, idmap), d.len() > 0, suf_matches(n, d, 0, 0).len() > 0,
    ensures ({ let t = ls(n, d); let o = cw_opos(st[idmap[t] as int]);
        o != 0 && o <= n.outputs@.len() && mk_match(n.outputs@[o - 1], end) == suf_matches(n, d, 0, end)[0] }),
{
    let d1 = d.drop_last(); let c = d.last();
    assert(d1.push(c) =~= d);
    w_step_cw(n, st, tb, asz, idmap, d1, c, end);
    lemma_suf_len(n, d, 0, 0, end);
}
proof fn lemma_first_nonempty<V>(n: NfaBuilder<char, V>, done: Seq<char>, rest: Seq<u8>, cnt: nat)
    ensures sem_first_cw(n, done, rest, cnt).is_some() ==> sem_first_cw(n, done, rest, cnt).unwrap().1.len() > 0,
    decreases rest.len(),
{
    if !(rest.len() == 0 || u8len(rest[0]) > rest.len()) {
        let w = u8len(rest[0]);
        let d2 = done.push(char_of(u8code(rest)));
        if !(suf_matches(n, d2, 0, 0).len() > 0) { lemma_first_nonempty(n, d2, rest.skip(w as int), cnt + w); }
    }
}
proof fn lemma_find_cw<V>(n: NfaBuilder<char, V>, st: Seq<State>, tb: Seq<u32>, asz: u32, idmap: Seq<u32>, rest: Seq<u8>, k: nat)
    requires ac_ctx_cw(n, st, tb, asz, idmap), utf8_ok(rest), idmap[0] == 0,
    ensures cw_find_stream(st, tb, n.outputs@, rest, k) == sem_find_cw(n, rest, k),
    decreases rest.len(),
{
    let e = Seq::<char>::empty();
    assert(ls(n, e) == 0);
    lemma_find_first_cw(n, st, tb, asz, idmap, e, rest, 0);
    lemma_first_nonempty(n, e, rest, 0);
    match sem_first_cw(n, e, rest, 0) {
        None => {}
        Some(p) => {
            w_head_cw(n, st, tb, asz, idmap, p.1, k + p.0);
            assert(rest.skip(p.0 - 0) =~= rest.skip(p.0 as int));
            lemma_find_cw(n, st, tb, asz, idmap, rest.skip(p.0 as int), k + p.0);
        }
    }
}
proof fn theorem_c02_cw<V>(n: NfaBuilder<char, V>, st: Seq<State>, tb: Seq<u32>, asz: u32, idmap: Seq<u32>, hay: Seq<u8>)
    requires nfa_tree(n), trie_ok(n), nfa_links(n, false), nfa_outs_ok(n), ac_fail(n), ac_outs(n),
        cw_encodes(st, tb, n, idmap), cw_wf(st, tb, false), mapper_covers(n, tb, asz), utf8_ok(hay),
    ensures cw_find_stream(st, tb, n.outputs@, hay, 0) == sem_find_cw(n, hay, 0),
{
    assert(ac_ctx_cw(n, st, tb, asz, idmap)) by { reveal(ac_ctx_cw); }
    lemma_enc_basic(st, tb, n, idmap, 0);
    lemma_find_cw(n, st, tb, asz, idmap, hay, 0);
}
