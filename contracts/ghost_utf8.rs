// ---- UTF-8 as a specification (Unicode standard table 3-7), independent of the decoder's code ----
spec fn u8len(b0: u8) -> nat { if b0 < 0x80 { 1 } else if b0 < 0xe0 { 2 } else if b0 < 0xf0 { 3 } else { 4 } }
spec fn is_cont(b: u8) -> bool { b & 0xc0 == 0x80 }

spec fn u8code(s: Seq<u8>) -> u32 {
    let b0 = s[0];
    if b0 < 0x80 { b0 as u32 }
    else if b0 < 0xe0 { ((b0 & 0x1f) as u32) << 6 | (s[1] & 0x3f) as u32 }
    else if b0 < 0xf0 { ((b0 & 0x0f) as u32) << 12 | ((s[1] & 0x3f) as u32) << 6 | (s[2] & 0x3f) as u32 }
    else { ((b0 & 0x07) as u32) << 18 | ((s[1] & 0x3f) as u32) << 12 | ((s[2] & 0x3f) as u32) << 6 | (s[3] & 0x3f) as u32 }
}

pub open spec fn is_scalar(v: u32) -> bool { v < 0xd800 || (0xe000 <= v && v <= 0x10ffff) }

// the first character of s is well formed
spec fn u8first_ok(s: Seq<u8>) -> bool {
    let b0 = s[0];
    let n = u8len(b0);
    &&& s.len() >= n
    &&& (b0 < 0x80 || (0xc2 <= b0 && b0 <= 0xf4))
    &&& (n >= 2 ==> is_cont(s[1]))
    &&& (n >= 3 ==> is_cont(s[2]))
    &&& (n >= 4 ==> is_cont(s[3]))
    &&& is_scalar(u8code(s))
}

// s is a sequence of well-formed characters (what `&str` guarantees)
spec fn utf8_ok(s: Seq<u8>) -> bool
    decreases s.len()
{
    s.len() == 0 || (u8first_ok(s) && utf8_ok(s.skip(u8len(s[0]) as int)))
}

spec fn char_of(v: u32) -> char { v as char }
