// a permutation has the same elements
proof fn lemma_perm_contains<T>(a: Seq<T>, b: Seq<T>)
    requires a.to_multiset() == b.to_multiset(),
    ensures forall|x: T| a.contains(x) <==> b.contains(x),
        a.no_duplicates() ==> b.no_duplicates(),
{
    a.to_multiset_ensures();
    b.to_multiset_ensures();
    assert forall|x: T| a.contains(x) <==> b.contains(x) by {
        assert(a.contains(x) <==> a.to_multiset().count(x) > 0);
        assert(b.contains(x) <==> b.to_multiset().count(x) > 0);
    }
    if a.no_duplicates() {
        a.lemma_multiset_has_no_duplicates();
        b.lemma_multiset_has_no_duplicates_conv();
    }
}

