// ---- errors.rs: the error type as an opaque enum; constructors return the named variant ----
// (error *text* is not part of any property; the payload structs are dropped)
#[derive(Debug)]
pub enum DaachorseError { InvalidArgument, DuplicatePattern, AutomatonScale, InvalidConversion }
pub type Result<T, E = DaachorseError> = core::result::Result<T, E>;
impl DaachorseError {
    pub fn invalid_argument(arg: &'static str, op: &'static str, value: u32) -> (r: Self) ensures r is InvalidArgument { Self::InvalidArgument }
    pub fn automaton_scale(arg: &'static str, max_value: u32) -> (r: Self) ensures r is AutomatonScale { Self::AutomatonScale }
    pub fn duplicate_pattern(pattern: alloc::string::String) -> (r: Self) ensures r is DuplicatePattern { Self::DuplicatePattern }
    pub fn invalid_conversion(arg: &'static str, target: &'static str) -> (r: Self) ensures r is InvalidConversion { Self::InvalidConversion }
}

// R11: `format!("{pattern:?}")` (only used to build an error message) is replaced by an arbitrary string
#[verifier::external_body]
pub fn verif_opaque_string() -> (r: alloc::string::String) { alloc::string::String::new() }
