// ---- Aho-Corasick correctness for the standard automaton, NFA level (included with u8 -> char for the char-wise units): the spec stream of the overlapping search over the
// double array equals the property-level semantics ("all occurrences, by end, longest first"), GIVEN the contract of the
// NFA fail/output passes (ac_fail, ac_outs: assumed, evaluated by the stand-in's NFA twin) ----
spec fn is_suffix(a: Seq<u8>, b: Seq<u8>) -> bool { a.len() <= b.len() && a =~= b.skip(b.len() - a.len()) }
spec fn t_node<V>(n: NfaBuilder<u8, V>, q: Seq<u8>) -> bool { walk(n, q).is_some() }

// label sequence from the root to state s
spec fn path<V>(n: NfaBuilder<u8, V>, s: int) -> Seq<u8>
    decreases s
{
    if s < 2 { Seq::empty() } else { let p = nfa_parent(n, s); if 0 <= p.0 < s { path(n, p.0).push(p.1) } else { Seq::empty() } }
}
proof fn lemma_walk_path<V>(n: NfaBuilder<u8, V>, s: int)
    requires nfa_tree(n), 0 <= s < n.states@.len(), s != 1,
    ensures walk(n, path(n, s)) == Some(s), path(n, s).len() == nfa_depth(n, s),
    decreases s,
{
    if s >= 2 {
        let p = nfa_parent(n, s);
        assert(nfa_parent_ok(n, s, p));
        lemma_walk_path(n, p.0);
        let q = path(n, s);
        assert(q.drop_last() =~= path(n, p.0));
        assert(q.last() == p.1);
        assert(t_edges(n, p.0) == nfa_edges(n, p.0));
    } else {
        assert(s == 0);
    }
}
proof fn lemma_path_of_walk<V>(n: NfaBuilder<u8, V>, q: Seq<u8>)
    requires nfa_tree(n), trie_ok(n), walk(n, q).is_some(),
    ensures 0 <= walk(n, q).unwrap() < n.states@.len(), walk(n, q).unwrap() != 1, q == path(n, walk(n, q).unwrap()),
{
    lemma_walk_range(n, q);
    let s = walk(n, q).unwrap();
    lemma_walk_path(n, s);
    lemma_walk_inj(n, q, path(n, s));
}
// the trie is prefix closed
proof fn lemma_node_prefix<V>(n: NfaBuilder<u8, V>, q: Seq<u8>)
    requires t_node(n, q), q.len() > 0,
    ensures t_node(n, q.drop_last()),
{
}
proof fn lemma_suffix_trans(a: Seq<u8>, b: Seq<u8>, c: Seq<u8>)
    requires is_suffix(a, b), is_suffix(b, c),
    ensures is_suffix(a, c),
{
    assert(a =~= c.skip(c.len() - a.len()));
}
// two suffixes of the same sequence: the shorter is a suffix of the longer
proof fn lemma_suffix_of_suffix(a: Seq<u8>, b: Seq<u8>, c: Seq<u8>)
    requires is_suffix(a, c), is_suffix(b, c), a.len() <= b.len(),
    ensures is_suffix(a, b),
{
    assert(a =~= b.skip(b.len() - a.len()));
}
proof fn lemma_suffix_push(a: Seq<u8>, b: Seq<u8>, c: u8)
    requires is_suffix(a, b),
    ensures is_suffix(a.push(c), b.push(c)),
{
    assert(a.push(c) =~= b.push(c).skip(b.push(c).len() - a.push(c).len()));
}
proof fn lemma_suffix_drop(q: Seq<u8>, b: Seq<u8>, c: u8)
    requires is_suffix(q, b.push(c)), q.len() > 0,
    ensures q.last() == c, is_suffix(q.drop_last(), b),
{
    let bc = b.push(c);
    assert(q.last() == bc[bc.len() - 1]);
    assert(q.drop_last() =~= b.skip(b.len() - q.drop_last().len()));
}

// ASSUMED (build_fails): fail(s) is the state of the longest proper suffix of path(s) that is a trie node
spec fn fail_ok<V>(n: NfaBuilder<u8, V>, s: int, f: int) -> bool {
    &&& 0 <= f < n.states@.len() && f != 1
    &&& is_suffix(path(n, f), path(n, s)) && path(n, f).len() < path(n, s).len()
    &&& forall|q: Seq<u8>| is_suffix(q, path(n, s)) && q.len() < path(n, s).len() && #[trigger] t_node(n, q) ==> q.len() <= path(n, f).len()
}
#[verifier::opaque]
spec fn ac_fail<V>(n: NfaBuilder<u8, V>) -> bool {
    forall|s: int| 2 <= s < n.states@.len() ==> fail_ok(n, s, (#[trigger] n.states@[s]).fail as int)
}
proof fn lemma_ac_fail<V>(n: NfaBuilder<u8, V>, s: int)
    requires ac_fail(n), 2 <= s < n.states@.len(),
    ensures fail_ok(n, s, n.states@[s].fail as int),
{ reveal(ac_fail); }

// r is the state of the longest suffix of path(s)+c that is a trie node
#[verifier::opaque]
spec fn nd_ok<V>(n: NfaBuilder<u8, V>, s: int, c: u8, r: int) -> bool {
    let pc = path(n, s).push(c);
    &&& 0 <= r < n.states@.len() && r != 1
    &&& is_suffix(path(n, r), pc)
    &&& forall|q: Seq<u8>| is_suffix(q, pc) && #[trigger] t_node(n, q) ==> q.len() <= path(n, r).len()
}

proof fn lemma_nd_edge<V>(n: NfaBuilder<u8, V>, s: int, c: u8)
    requires nfa_tree(n), trie_ok(n), 0 <= s < n.states@.len(), s != 1, nfa_edges(n, s).contains_key(c),
    ensures nd_ok(n, s, c, nfa_edges(n, s)[c] as int),
{
    reveal(nd_ok);
    let p = path(n, s); let pc = p.push(c);
    let r = nfa_edges(n, s)[c] as int;
    lemma_walk_path(n, s);
    assert(pc.drop_last() =~= p && pc.last() == c);
    assert(t_edges(n, s) == nfa_edges(n, s));
    assert(walk(n, pc) == Some(r));
    lemma_path_of_walk(n, pc);
    assert(path(n, r) == pc);
    assert(is_suffix(pc, pc));
}

proof fn lemma_nd_root<V>(n: NfaBuilder<u8, V>, c: u8)
    requires nfa_tree(n), trie_ok(n), !nfa_edges(n, 0).contains_key(c),
    ensures nd_ok(n, 0, c, 0),
{
    reveal(nd_ok);
    let pc = path(n, 0).push(c);
    assert(path(n, 0).len() == 0);
    assert(is_suffix(path(n, 0), pc));
    assert forall|q: Seq<u8>| is_suffix(q, pc) && #[trigger] t_node(n, q) implies q.len() <= 0 by {
        if q.len() > 0 {
            assert(q.len() == 1);
            assert(q.drop_last().len() == 0);
            assert(walk(n, q.drop_last()) == Some(0int));
            assert(q.last() == pc[0]);
            assert(t_edges(n, 0) == nfa_edges(n, 0));
        }
    }
}

proof fn lemma_nd_step<V>(n: NfaBuilder<u8, V>, s: int, c: u8, f: int, r: int)
    requires nfa_tree(n), trie_ok(n), 2 <= s < n.states@.len(), !nfa_edges(n, s).contains_key(c), fail_ok(n, s, f), nd_ok(n, f, c, r),
    ensures nd_ok(n, s, c, r),
{
    reveal(nd_ok);
    let p = path(n, s); let pc = p.push(c);
    let pf = path(n, f);
    lemma_walk_path(n, s);
    lemma_suffix_push(pf, p, c);
    lemma_suffix_trans(path(n, r), pf.push(c), pc);
    assert forall|q: Seq<u8>| is_suffix(q, pc) && #[trigger] t_node(n, q) implies q.len() <= path(n, r).len() by {
        if q.len() > 0 {
            lemma_suffix_drop(q, p, c);
            let q1 = q.drop_last();
            lemma_node_prefix(n, q);
            if q1.len() == p.len() {
                // q1 would be all of p: then s has the edge c
                assert(q1 =~= p);
                assert(walk(n, q1) == Some(s));
                assert(t_edges(n, s).contains_key(q.last()));
                assert(t_edges(n, s) == nfa_edges(n, s));
                assert(false);
            }
            assert(t_node(n, q1));
            assert(q1.len() <= pf.len());
            lemma_suffix_of_suffix(q1, pf, p);
            lemma_suffix_push(q1, pf, c);
            assert(q1.push(c) =~= q);
            assert(is_suffix(q, pf.push(c)));
        }
    }
}

// the structural hypotheses in one opaque bundle: the inductive lemmas below see only this atom
#[verifier::opaque]
spec fn ac_ctx0<V>(n: NfaBuilder<u8, V>) -> bool { nfa_tree(n) && trie_ok(n) && nfa_links(n, false) && ac_fail(n) }

proof fn w_nd_unfold<V>(n: NfaBuilder<u8, V>, s: int, c: u8)
    requires ac_ctx0(n), 0 <= s < n.states@.len(), s != 1,
    ensures nfa_nd(n, s, c) == (if nfa_edges(n, s).contains_key(c) { nfa_edges(n, s)[c] as int } else if s == 0 { 0 } else { nfa_nd(n, n.states@[s].fail as int, c) }),
        0 <= nfa_nd(n, s, c) < n.states@.len(), nfa_nd(n, s, c) != 1,
        s >= 2 ==> 0 <= n.states@[s].fail < n.states@.len() && n.states@[s].fail != 1 && nfa_depth(n, n.states@[s].fail as int) < nfa_depth(n, s),
{
    reveal(ac_ctx0);
    lemma_nd_range(n, s, c);
}
proof fn w_nd_edge<V>(n: NfaBuilder<u8, V>, s: int, c: u8)
    requires ac_ctx0(n), 0 <= s < n.states@.len(), s != 1, nfa_edges(n, s).contains_key(c),
    ensures nd_ok(n, s, c, nfa_edges(n, s)[c] as int),
{ reveal(ac_ctx0); lemma_nd_edge(n, s, c); }
proof fn w_nd_root<V>(n: NfaBuilder<u8, V>, c: u8)
    requires ac_ctx0(n), !nfa_edges(n, 0).contains_key(c),
    ensures nd_ok(n, 0, c, 0),
{ reveal(ac_ctx0); lemma_nd_root(n, c); }
proof fn w_nd_step<V>(n: NfaBuilder<u8, V>, s: int, c: u8, r: int)
    requires ac_ctx0(n), 2 <= s < n.states@.len(), !nfa_edges(n, s).contains_key(c), nd_ok(n, n.states@[s].fail as int, c, r),
    ensures nd_ok(n, s, c, r),
{
    reveal(ac_ctx0);
    lemma_ac_fail(n, s);
    lemma_nd_step(n, s, c, n.states@[s].fail as int, r);
}

// the goto/fail transition computes the longest suffix of path(s)+c that is a trie node
proof fn lemma_nd_longest<V>(n: NfaBuilder<u8, V>, s: int, c: u8)
    requires ac_ctx0(n), 0 <= s < n.states@.len(), s != 1,
    ensures nd_ok(n, s, c, nfa_nd(n, s, c)),
    decreases nfa_depth(n, s),
{
    w_nd_unfold(n, s, c);
    if nfa_edges(n, s).contains_key(c) {
        w_nd_edge(n, s, c);
    } else if s == 0 {
        w_nd_root(n, c);
    } else {
        let f = n.states@[s].fail as int;
        lemma_nd_longest(n, f, c);
        w_nd_step(n, s, c, nfa_nd(n, f, c));
    }
}

// ---- the state reached from the root after reading w is the longest suffix of w that is a trie node ----
spec fn ls<V>(n: NfaBuilder<u8, V>, w: Seq<u8>) -> int
    decreases w.len()
{
    if w.len() == 0 { 0 } else { nfa_nd(n, ls(n, w.drop_last()), w.last()) }
}
// r is the state of the longest suffix of w that is a trie node
#[verifier::opaque]
spec fn ls_ok<V>(n: NfaBuilder<u8, V>, w: Seq<u8>, r: int) -> bool {
    &&& 0 <= r < n.states@.len() && r != 1
    &&& is_suffix(path(n, r), w)
    &&& forall|q: Seq<u8>| is_suffix(q, w) && #[trigger] t_node(n, q) ==> q.len() <= path(n, r).len()
}
proof fn lemma_ls_step<V>(n: NfaBuilder<u8, V>, w: Seq<u8>, c: u8, x: int, r: int)
    requires nfa_tree(n), trie_ok(n), ls_ok(n, w, x), nd_ok(n, x, c, r),
    ensures ls_ok(n, w.push(c), r),
{
    reveal(nd_ok); reveal(ls_ok);
    let p = path(n, x); let wc = w.push(c);
    lemma_suffix_push(p, w, c);
    lemma_suffix_trans(path(n, r), p.push(c), wc);
    assert forall|q: Seq<u8>| is_suffix(q, wc) && #[trigger] t_node(n, q) implies q.len() <= path(n, r).len() by {
        if q.len() > 0 {
            lemma_suffix_drop(q, w, c);
            let q1 = q.drop_last();
            lemma_node_prefix(n, q);
            assert(t_node(n, q1));
            assert(q1.len() <= p.len());
            lemma_suffix_of_suffix(q1, p, w);
            lemma_suffix_push(q1, p, c);
            assert(q1.push(c) =~= q);
            assert(is_suffix(q, p.push(c)));
        }
    }
}
proof fn lemma_ls_empty<V>(n: NfaBuilder<u8, V>, w: Seq<u8>)
    requires ac_ctx0(n), w.len() == 0,
    ensures ls_ok(n, w, 0),
{
    reveal(ls_ok); reveal(ac_ctx0);
    assert(path(n, 0).len() == 0);
    assert(is_suffix(path(n, 0), w));
}
proof fn lemma_ls_range<V>(n: NfaBuilder<u8, V>, w: Seq<u8>, r: int)
    requires ls_ok(n, w, r),
    ensures 0 <= r < n.states@.len(), r != 1,
{ reveal(ls_ok); }
proof fn w_ls_step<V>(n: NfaBuilder<u8, V>, w: Seq<u8>, c: u8, x: int, r: int)
    requires ac_ctx0(n), ls_ok(n, w, x), nd_ok(n, x, c, r),
    ensures ls_ok(n, w.push(c), r),
{ reveal(ac_ctx0); lemma_ls_step(n, w, c, x, r); }
proof fn lemma_ls<V>(n: NfaBuilder<u8, V>, w: Seq<u8>)
    requires ac_ctx0(n),
    ensures ls_ok(n, w, ls(n, w)),
    decreases w.len(),
{
    if w.len() == 0 {
        lemma_ls_empty(n, w);
    } else {
        let w1 = w.drop_last(); let c = w.last();
        lemma_ls(n, w1);
        let x = ls(n, w1);
        lemma_ls_range(n, w1, x);
        lemma_nd_longest(n, x, c);
        w_ls_step(n, w1, c, x, nfa_nd(n, x, c));
        assert(w1.push(c) =~= w);
    }
}

//@include ghost_sem.rs
// suffixes of w that are longer than its longest trie-node suffix p are not registered: both give the same matches
proof fn lemma_suf_shift<V>(n: NfaBuilder<u8, V>, w: Seq<u8>, p: Seq<u8>, j: nat, end: nat)
    requires is_suffix(p, w), j <= p.len(),
    ensures suf_matches(n, w, (w.len() - p.len() + j) as nat, end) == suf_matches(n, p, j, end),
    decreases p.len() - j,
{
    let d = (w.len() - p.len()) as nat;
    if j < p.len() {
        assert(w.skip((d + j) as int) =~= p.skip(j as int));
        lemma_suf_shift(n, w, p, j + 1, end);
    }
}
proof fn lemma_suf_longest<V>(n: NfaBuilder<u8, V>, w: Seq<u8>, r: int, i: nat, end: nat)
    requires ls_ok(n, w, r), i <= w.len() - path(n, r).len(),
    ensures suf_matches(n, w, i, end) == suf_matches(n, path(n, r), 0, end),
    decreases w.len() - path(n, r).len() - i,
{
    reveal(ls_ok);
    let p = path(n, r);
    let d = (w.len() - p.len()) as nat;
    if i < d {
        let q = w.skip(i as int);
        assert(is_suffix(q, w));
        assert(!t_node(n, q));
        assert(!is_registered(n, q));
        lemma_suf_longest(n, w, r, i + 1, end);
        assert(suf_matches(n, w, i, end) =~= suf_matches(n, w, i + 1, end));
    } else {
        lemma_suf_shift(n, w, p, 0, end);
    }
}
proof fn lemma_ls_len<V>(n: NfaBuilder<u8, V>, w: Seq<u8>, r: int)
    requires ls_ok(n, w, r),
    ensures path(n, r).len() <= w.len(),
{ reveal(ls_ok); }

// ASSUMED (build_outputs): the output chain of a state lists the registered patterns that are suffixes of its path, longest first
#[verifier::opaque]
spec fn ac_outs<V>(n: NfaBuilder<u8, V>) -> bool {
    forall|s: int, end: nat| 0 <= s < n.states@.len() && s != 1 ==>
        #[trigger] chain(n.outputs@, opt_n(n.states@[s].output_pos), end) == suf_matches(n, path(n, s), 0, end)
}
proof fn lemma_ac_outs<V>(n: NfaBuilder<u8, V>, s: int, end: nat)
    requires ac_outs(n), 0 <= s < n.states@.len(), s != 1,
    ensures chain(n.outputs@, opt_n(n.states@[s].output_pos), end) == suf_matches(n, path(n, s), 0, end),
{ reveal(ac_outs); }
