// ---- trusted: AsRef<T>::as_ref is a pure function of the receiver (view as_ref_spec) ----
#[verifier::external_trait_specification]
#[verifier::external_trait_extension(AsRefSpec via AsRefSpecImpl)]
pub trait ExAsRef<T: core::marker::PointeeSized>: core::marker::PointeeSized {
    type ExternalTraitSpecificationFor: AsRef<T>;
    spec fn as_ref_spec(&self) -> &T;
    fn as_ref(&self) -> (r: &T)
        ensures r == self.as_ref_spec();
}
