// ---- C11 / determinism for the leftmost kinds (label-generic part; with u8 -> char for the char-wise unit): the leftmost results are a function of the input sequence.  Two sparse NFAs
// built from the same pattern/value sequence (whatever else differs: state numbering, array layout, num_free_blocks) register the same
// patterns with the same values (lemma_reg_same, from lf_inv), the greedy tiling does not depend on anything else (lemma_lm_optimal_same)
// and is unique (lemma_lm_optimal_unique): so their leftmost streams are equal (theorem_c11_lm). ----
proof fn lemma_lf_unreg<V>(n: NfaBuilder<u8, V>, ps: Seq<Seq<u8>>, j: int) -> (i: int)
    requires lf_inv(n, ps, ps.len() as int), 0 <= j < ps.len(), !is_registered(n, ps[j]),
    ensures 0 <= i < j, is_pprefix(ps[i], ps[j]), is_registered(n, ps[i]), n.match_kind is LeftmostFirst,
{
    choose|i: int| 0 <= i < j && is_pprefix(#[trigger] ps[i], ps[j]) && is_registered(n, ps[i])
}
proof fn lemma_lf_regd<V>(n: NfaBuilder<u8, V>, ps: Seq<Seq<u8>>, i: int, j: int)
    requires lf_inv(n, ps, ps.len() as int), 0 <= i < j < ps.len(), n.match_kind is LeftmostFirst, is_registered(n, ps[j]), is_pprefix(ps[i], ps[j]),
    ensures !is_registered(n, ps[i]),
{ }
proof fn lemma_reg_unique<V>(n1: NfaBuilder<u8, V>, n2: NfaBuilder<u8, V>, ps: Seq<Seq<u8>>, j: int)
    requires lf_inv(n1, ps, ps.len() as int), lf_inv(n2, ps, ps.len() as int), n1.match_kind == n2.match_kind, 0 <= j < ps.len(),
    ensures is_registered(n1, ps[j]) == is_registered(n2, ps[j]),
    decreases j,
{
    hide(lf_inv);
    if !is_registered(n1, ps[j]) {
        let i = lemma_lf_unreg(n1, ps, j);
        lemma_reg_unique(n1, n2, ps, i);
        if is_registered(n2, ps[j]) { lemma_lf_regd(n2, ps, i, j); }
    }
    if !is_registered(n2, ps[j]) {
        let i = lemma_lf_unreg(n2, ps, j);
        lemma_reg_unique(n1, n2, ps, i);
        if is_registered(n1, ps[j]) { lemma_lf_regd(n1, ps, i, j); }
    }
}
// same registered patterns, same values
spec fn same_regs<V>(n1: NfaBuilder<u8, V>, n2: NfaBuilder<u8, V>) -> bool {
    forall|q: Seq<u8>| (#[trigger] is_registered(n1, q) == is_registered(n2, q)) && (is_registered(n1, q) ==> reg_out(n1, q).unwrap().0 == reg_out(n2, q).unwrap().0)
}
// the value of a registered input pattern is the value paired with it (values_are of the wrappers, with ps[j] = pattern j, vs[j] = value j)
spec fn vals_are<V>(n: NfaBuilder<u8, V>, ps: Seq<Seq<u8>>, vs: Seq<V>) -> bool {
    forall|j: int| 0 <= j < ps.len() && is_registered(n, #[trigger] ps[j]) ==> reg_out(n, ps[j]).unwrap().0 == vs[j]
}
proof fn lemma_reg_same<V>(n1: NfaBuilder<u8, V>, n2: NfaBuilder<u8, V>, ps: Seq<Seq<u8>>, vs: Seq<V>)
    requires lf_inv(n1, ps, ps.len() as int), lf_inv(n2, ps, ps.len() as int), n1.match_kind == n2.match_kind, vals_are(n1, ps, vs), vals_are(n2, ps, vs),
    ensures same_regs(n1, n2),
{
    assert forall|q: Seq<u8>| (#[trigger] is_registered(n1, q) == is_registered(n2, q)) && (is_registered(n1, q) ==> reg_out(n1, q).unwrap().0 == reg_out(n2, q).unwrap().0) by {
        if is_registered(n1, q) {
            let j = choose|j: int| 0 <= j < ps.len() && #[trigger] ps[j] == q;
            lemma_reg_unique(n1, n2, ps, j);
        }
        if is_registered(n2, q) {
            let j = choose|j: int| 0 <= j < ps.len() && #[trigger] ps[j] == q;
            lemma_reg_unique(n1, n2, ps, j);
        }
    }
}
proof fn lemma_best_same<V>(n1: NfaBuilder<u8, V>, n2: NfaBuilder<u8, V>, x: Seq<u8>, st: int, len: int)
    requires same_regs(n1, n2), best(n1, x, st, len),
    ensures best(n2, x, st, len),
{
    assert forall|a: int, b: int| occ(n1, x, a, b) == occ(n2, x, a, b) by { }
    assert forall|st2: int, len2: int| #[trigger] occ(n2, x, st2, len2) implies st < st2 || (st == st2 && len2 <= len) by {
        assert(occ(n1, x, st2, len2));
    }
}
