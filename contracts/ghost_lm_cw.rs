//@include ghost_cwl.rs
spec fn cwl_cand(l: Option<NonZeroU32>, pos: usize) -> Option<(nat, nat)> {
    match l { None => None, Some(o) => Some((o@ as nat, pos as nat)) }
}

spec fn cwl_inv<P: AsRef<str>, V>(it: LestmostFindIterator<'_, P, V>) -> bool {
    cw_pma_ok(it.pma, true) && str_boundary(it.haystack.as_ref_spec(), it.pos as int)
}
spec fn cwl_stream_of<P: AsRef<str>, V>(it: LestmostFindIterator<'_, P, V>) -> Seq<Match<V>> {
    cwl_stream(it.pma.states@, it.pma.mapper.table@, it.pma.outputs@, it.haystack.as_ref_spec(), it.pos as nat)
}
