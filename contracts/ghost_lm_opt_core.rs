// ---- leftmost kinds, OPTIMALITY half of C03 / C04: the candidate the NFA-level leftmost scan ends with is the occurrence of a registered
// pattern with the smallest start in the rest of the haystack and, among those with that start, the longest.  From the pass contract:
// lm_fail_ok (a live link is the longest proper suffix node), lm_dead_ok (a link is dead exactly if falling back would lose an occurrence
// already seen) and opos_inherit (own record, or the output position of the fail target). ----
#[verifier::opaque]
spec fn optctx<V>(n: NfaBuilder<u8, V>) -> bool { pctx(n) && nfa_links(n, true) && lm_fail_ok(n) && lm_dead_ok(n) && opos_inherit(n) && nfa_outs_ok(n) }
proof fn w_opt<V>(n: NfaBuilder<u8, V>, s: int)
    requires optctx(n), 0 <= s < n.states@.len(), s != 1,
    ensures pctx(n), n.states@[0].output_pos.is_none(), n.states@[1].output_pos.is_none(), opt_n(n.states@[s].output_pos) <= n.outputs@.len(),
        s >= 2 ==> inh_at(n, n, s) && ((n.states@[s].fail == 1) <==> dead_sem(n, s))
            && (n.states@[s].fail != 1 ==> fail_ok(n, s, n.states@[s].fail as int) && 0 <= n.states@[s].fail < n.states@.len()
                    && nfa_depth(n, n.states@[s].fail as int) < nfa_depth(n, s)),
        forall|c: u8| #[trigger] nfa_nd_lm(n, s, c) == (if nfa_edges(n, s).contains_key(c) { nfa_edges(n, s)[c] as int } else if s == 0 || n.states@[s].fail == 1 { 0 } else { nfa_nd_lm(n, n.states@[s].fail as int, c) }),
{
    reveal(optctx);
    if s >= 2 {
        lemma_opos_inherit_get(n, s);
        lemma_lm_dead_get(n, s);
        if n.states@[s].fail != 1 { lemma_fail_ok_facts(n, s, n.states@[s].fail as int); }
    } else { reveal(opos_inherit); }
    assert(nfa_tree(n)) by { reveal(pctx); }
}
// s is the state of the longest suffix of x that is a trie node
spec fn lsn<V>(n: NfaBuilder<u8, V>, s: int, x: Seq<u8>) -> bool {
    &&& 0 <= s < n.states@.len() && s != 1 && is_suffix(path(n, s), x)
    &&& forall|q: Seq<u8>| is_suffix(q, x) && #[trigger] t_node(n, q) ==> q.len() <= path(n, s).len()
}
// no suffix of x longer than k can be extended by c inside the trie
spec fn cmax_x<V>(n: NfaBuilder<u8, V>, x: Seq<u8>, c: u8, k: int) -> bool {
    forall|q1: Seq<u8>| is_suffix(q1, x) && #[trigger] t_node(n, q1.push(c)) ==> q1.len() <= k
}
// every suffix of x that could still be extended by c starts after an occurrence already seen
spec fn ext_lost<V>(n: NfaBuilder<u8, V>, x: Seq<u8>, c: u8) -> bool {
    forall|v: Seq<u8>| is_suffix(v, x) && #[trigger] t_node(n, v.push(c)) ==> exists|st0: int, len0: int| #[trigger] occ(n, x, st0, len0) && st0 < x.len() - v.len()
}
// every occurrence that ends where x2 ends starts after an occurrence that ended earlier
spec fn new_beaten<V>(n: NfaBuilder<u8, V>, x2: Seq<u8>) -> bool {
    forall|st2: int, len2: int| #[trigger] occ(n, x2, st2, len2) && st2 + len2 == x2.len() ==> exists|st0: int, len0: int| #[trigger] occ(n, x2, st0, len0) && st0 + len0 < x2.len() && st0 < st2
}
// (st, len) is the leftmost occurrence inside x and the longest one at that start
spec fn best<V>(n: NfaBuilder<u8, V>, x: Seq<u8>, st: int, len: int) -> bool {
    &&& occ(n, x, st, len)
    &&& forall|st2: int, len2: int| #[trigger] occ(n, x, st2, len2) ==> st < st2 || (st == st2 && len2 <= len)
}
proof fn lemma_prefix_node<V>(n: NfaBuilder<u8, V>, q: Seq<u8>, k: int)
    requires t_node(n, q), 0 <= k <= q.len(),
    ensures t_node(n, q.take(k)),
    decreases q.len() - k,
{
    if k < q.len() {
        lemma_prefix_node(n, q, k + 1);
        lemma_node_prefix(n, q.take(k + 1));
        assert(q.take(k + 1).drop_last() =~= q.take(k));
    } else { assert(q.take(k) =~= q); }
}
// the leftmost transition from a state on the fail chain of the current state
proof fn lemma_lm_trans<V>(n: NfaBuilder<u8, V>, x: Seq<u8>, u: int, c: u8)
    requires optctx(n), 0 <= u < n.states@.len(), u != 1, is_suffix(path(n, u), x), within(n, x, path(n, u).len() as int), cmax_x(n, x, c, path(n, u).len() as int),
    ensures ({ let r = nfa_nd_lm(n, u, c); let x2 = x.push(c);
        &&& 0 <= r < n.states@.len() && r != 1
        &&& r != 0 ==> lsn(n, r, x2) && within(n, x2, path(n, r).len() as int)
        &&& r == 0 ==> ext_lost(n, x, c) }),
    decreases nfa_depth(n, u),
{
    w_opt(n, u);
    let x2 = x.push(c); let xu = path(n, u);
    if nfa_edges(n, u).contains_key(c) {
        let r = nfa_edges(n, u)[c] as int;
        lemma_path_child(n, u, c);
        lemma_suffix_push(xu, x, c);
        assert forall|q: Seq<u8>| is_suffix(q, x2) && #[trigger] t_node(n, q) implies q.len() <= path(n, r).len() by {
            if q.len() > 0 {
                lemma_suffix_drop(q, x, c);
                assert(q.drop_last().push(c) =~= q);
                assert(t_node(n, q.drop_last().push(c)));
            }
        }
        assert(lsn(n, r, x2));
        assert forall|st: int, len: int| #[trigger] occ(n, x2, st, len) implies st >= x2.len() - path(n, r).len() by {
            if st + len <= x.len() {
                assert(x2.subrange(st, st + len) =~= x.subrange(st, st + len));
                assert(occ(n, x, st, len));
            } else {
                let pq = x2.subrange(st, st + len);
                assert(pq =~= x2.skip(x2.len() - pq.len()));
                assert(is_suffix(pq, x2));
                assert(t_node(n, pq));
            }
        }
    } else if u == 0 {
        assert(xu.len() == 0);
        lemma_no_edge_no_node(n, 0, c);
        assert forall|v: Seq<u8>| is_suffix(v, x) && #[trigger] t_node(n, v.push(c)) implies exists|st0: int, len0: int| #[trigger] occ(n, x, st0, len0) && st0 < x.len() - v.len() by {
            assert(v.len() <= 0);
            assert(v =~= xu);
            assert(false);
        }
    } else if n.states@[u].fail == 1 {
        lemma_no_edge_no_node(n, u, c);
        let (st1, len1) = choose|st1: int, len1: int| #[trigger] dead_wit(n, u, st1, len1);
        let o = x.len() - xu.len();
        assert(x.subrange(o + st1, o + st1 + len1) =~= xu.subrange(st1, st1 + len1));
        assert(occ(n, x, o + st1, len1));
        assert forall|v: Seq<u8>| is_suffix(v, x) && #[trigger] t_node(n, v.push(c)) implies exists|st0: int, len0: int| #[trigger] occ(n, x, st0, len0) && st0 < x.len() - v.len() by {
            assert(v.len() <= xu.len());
            if v.len() == xu.len() { assert(v =~= xu); assert(false); }
            lemma_suffix_of_suffix(v, xu, x);
            lemma_node_prefix(n, v.push(c));
            assert(v.push(c).drop_last() =~= v);
            assert(t_node(n, v));
            assert(st1 < xu.len() - v.len());
            assert(occ(n, x, o + st1, len1) && o + st1 < x.len() - v.len());
        }
    } else {
        let g = n.states@[u].fail as int;
        lemma_no_edge_no_node(n, u, c);
        lemma_within_step(n, x, u, g);
        lemma_suffix_trans(path(n, g), xu, x);
        assert forall|q1: Seq<u8>| is_suffix(q1, x) && #[trigger] t_node(n, q1.push(c)) implies q1.len() <= path(n, g).len() by {
            assert(q1.len() <= xu.len());
            if q1.len() == xu.len() { assert(q1 =~= xu); assert(false); }
            lemma_suffix_of_suffix(q1, xu, x);
            lemma_node_prefix(n, q1.push(c));
            assert(q1.push(c).drop_last() =~= q1);
            assert(t_node(n, q1));
        }
        lemma_lm_trans(n, x, g, c);
    }
}
// what the output position of the state reached says about the occurrences inside x2
proof fn lemma_lm_opos<V>(n: NfaBuilder<u8, V>, x2: Seq<u8>, v: int)
    requires optctx(n), 0 <= v < n.states@.len(), v != 1, is_suffix(path(n, v), x2), within(n, x2, path(n, v).len() as int),
    ensures ({ let o = opt_n(n.states@[v].output_pos);
        &&& o <= n.outputs@.len()
        &&& o != 0 ==> exists|q: Seq<u8>| is_suffix(q, x2) && #[trigger] rec_of(n, q, n.outputs@[o - 1]) && q.len() > 0 && within(n, x2, q.len() as int)
        &&& o == 0 ==> new_beaten(n, x2) }),
    decreases nfa_depth(n, v),
{
    w_opt(n, v);
    let xv = path(n, v);
    let o = opt_n(n.states@[v].output_pos);
    if v == 0 {
        assert(xv.len() == 0);
    } else {
        lemma_depth_is_path_len(n, v);
        let pp = nfa_parent(n, v);
        assert(nfa_parent_ok(n, v, pp)) by { reveal(pctx); }
        lemma_path_child(n, pp.0, pp.1);
        assert(xv.len() > 0);
        match n.states@[v].output {
            Some(xo) => {
                assert(is_registered(n, xv));
                assert(reg_out(n, xv) == Some(xo));
                assert(rec_of(n, xv, n.outputs@[o - 1]));
            }
            None => {
                let f = n.states@[v].fail as int;
                if f == 1 {
                    assert(o == 0);
                    let (st1, len1) = choose|st1: int, len1: int| #[trigger] dead_wit(n, v, st1, len1);
                    let off = x2.len() - xv.len();
                    assert(x2.subrange(off + st1, off + st1 + len1) =~= xv.subrange(st1, st1 + len1));
                    assert(occ(n, x2, off + st1, len1));
                    if st1 + len1 == xv.len() { lemma_wit_suffix(n, v, st1, len1); }
                    assert forall|st2: int, len2: int| #[trigger] occ(n, x2, st2, len2) && st2 + len2 == x2.len() implies exists|st0: int, len0: int| #[trigger] occ(n, x2, st0, len0) && st0 + len0 < x2.len() && st0 < st2 by {
                        assert(st2 >= off);
                        let pq = x2.subrange(st2, st2 + len2);
                        assert(pq =~= xv.skip(xv.len() - pq.len()));
                        assert(is_suffix(pq, xv));
                        assert(t_node(n, pq));
                        if st2 == off { assert(pq =~= xv); assert(false); }
                        assert(st1 < xv.len() - pq.len());
                        assert(occ(n, x2, off + st1, len1) && off + st1 + len1 < x2.len() && off + st1 < st2);
                    }
                } else {
                    lemma_within_step(n, x2, v, f);
                    lemma_suffix_trans(path(n, f), xv, x2);
                    lemma_lm_opos(n, x2, f);
                }
            }
        }
    }
}
// stopping is right (label-generic form): x = full.take(k) has been read, the next symbol is full[k]
proof fn lemma_stop_best_x<V>(n: NfaBuilder<u8, V>, full: Seq<u8>, k: int, st: int, len: int)
    requires 0 <= k < full.len(), best(n, full.take(k), st, len), ext_lost(n, full.take(k), full[k]),
    ensures best(n, full, st, len),
{
    let x = full.take(k); let c = full[k];
    assert(full.subrange(st, st + len) =~= x.subrange(st, st + len));
    assert forall|st2: int, len2: int| #[trigger] occ(n, full, st2, len2) implies st < st2 || (st == st2 && len2 <= len) by {
        if st2 + len2 <= x.len() {
            assert(full.subrange(st2, st2 + len2) =~= x.subrange(st2, st2 + len2));
            assert(occ(n, x, st2, len2));
        } else if st2 <= st {
            let v = x.skip(st2);
            let pat = full.subrange(st2, st2 + len2);
            assert(is_suffix(v, x)) by { assert(v =~= x.skip(x.len() - v.len())); }
            assert(pat.take(v.len() as int + 1) =~= v.push(c));
            lemma_prefix_node(n, pat, v.len() as int + 1);
            let (st0, len0) = choose|st0: int, len0: int| #[trigger] occ(n, x, st0, len0) && st0 < x.len() - v.len();
            assert(st0 < st2);
            assert(false);
        }
    }
}
// a step that brings no candidate: what was best stays best, and nothing stays nothing
proof fn lemma_best_keep<V>(n: NfaBuilder<u8, V>, x: Seq<u8>, c: u8, st: int, len: int)
    requires best(n, x, st, len), new_beaten(n, x.push(c)),
    ensures best(n, x.push(c), st, len),
{
    let x2 = x.push(c);
    assert(x2.subrange(st, st + len) =~= x.subrange(st, st + len));
    assert forall|st2: int, len2: int| #[trigger] occ(n, x2, st2, len2) implies st < st2 || (st == st2 && len2 <= len) by {
        if st2 + len2 <= x.len() {
            assert(x2.subrange(st2, st2 + len2) =~= x.subrange(st2, st2 + len2));
            assert(occ(n, x, st2, len2));
        } else {
            let (st0, len0) = choose|st0: int, len0: int| #[trigger] occ(n, x2, st0, len0) && st0 + len0 < x2.len() && st0 < st2;
            assert(x2.subrange(st0, st0 + len0) =~= x.subrange(st0, st0 + len0));
            assert(occ(n, x, st0, len0));
        }
    }
}
proof fn lemma_none_keep<V>(n: NfaBuilder<u8, V>, x: Seq<u8>, c: u8)
    requires forall|st: int, len: int| !#[trigger] occ(n, x, st, len), new_beaten(n, x.push(c)),
    ensures forall|st: int, len: int| !#[trigger] occ(n, x.push(c), st, len),
{
    let x2 = x.push(c);
    assert forall|st: int, len: int| !#[trigger] occ(n, x2, st, len) by {
        if occ(n, x2, st, len) {
            if st + len <= x.len() {
                assert(x2.subrange(st, st + len) =~= x.subrange(st, st + len));
                assert(occ(n, x, st, len));
            } else {
                let (st0, len0) = choose|st0: int, len0: int| #[trigger] occ(n, x2, st0, len0) && st0 + len0 < x2.len() && st0 < st;
                assert(x2.subrange(st0, st0 + len0) =~= x.subrange(st0, st0 + len0));
                assert(occ(n, x, st0, len0));
            }
        }
    }
}
// back at the root with nothing seen: the root is the longest suffix node and nothing registered occurs
proof fn lemma_none_root<V>(n: NfaBuilder<u8, V>, x: Seq<u8>, c: u8)
    requires optctx(n), forall|st: int, len: int| !#[trigger] occ(n, x, st, len), ext_lost(n, x, c),
    ensures lsn(n, 0, x.push(c)), within(n, x.push(c), 0), forall|st: int, len: int| !#[trigger] occ(n, x.push(c), st, len),
{
    let x2 = x.push(c);
    assert(pctx(n)) by { reveal(optctx); }
    lemma_pctx_len(n);
    assert forall|v: Seq<u8>| is_suffix(v, x) implies !#[trigger] t_node(n, v.push(c)) by { }
    assert(path(n, 0).len() == 0);
    assert(is_suffix(path(n, 0), x2));
    assert forall|q: Seq<u8>| is_suffix(q, x2) && #[trigger] t_node(n, q) implies q.len() <= 0 by {
        if q.len() > 0 {
            lemma_suffix_drop(q, x, c);
            assert(q.drop_last().push(c) =~= q);
            assert(t_node(n, q.drop_last().push(c)));
        }
    }
    assert forall|st: int, len: int| !#[trigger] occ(n, x2, st, len) by {
        if occ(n, x2, st, len) {
            if st + len <= x.len() {
                assert(x2.subrange(st, st + len) =~= x.subrange(st, st + len));
                assert(occ(n, x, st, len));
            } else {
                let pq = x2.subrange(st, st + len);
                assert(pq =~= x2.skip(x2.len() - pq.len()));
                assert(is_suffix(pq, x2) && t_node(n, pq));
            }
        }
    }
}
