// ---- leftmost soundness, label-generic core (included with u8 -> char for the char-wise unit) ----
// the hypotheses in one opaque bundle: the inductive lemmas below see only this atom
#[verifier::opaque]
spec fn lmctx<V>(n: NfaBuilder<u8, V>) -> bool { nfa_tree(n) && nfa_links(n, true) && fail_suffix(n) && opos_sound(n) }
proof fn w_lm_unfold<V>(n: NfaBuilder<u8, V>, s: int, c: u8)
    requires lmctx(n), 0 <= s < n.states@.len(), s != 1,
    ensures nfa_nd_lm(n, s, c) == (if nfa_edges(n, s).contains_key(c) { nfa_edges(n, s)[c] as int } else if s == 0 || n.states@[s].fail == 1 { 0 } else { nfa_nd_lm(n, n.states@[s].fail as int, c) }),
        0 <= nfa_nd_lm(n, s, c) < n.states@.len(), nfa_nd_lm(n, s, c) != 1,
        nfa_edges(n, s).contains_key(c) ==> path(n, nfa_edges(n, s)[c] as int) == path(n, s).push(c),
        s >= 2 && n.states@[s].fail != 1 ==> 0 <= n.states@[s].fail < n.states@.len() && nfa_depth(n, n.states@[s].fail as int) < nfa_depth(n, s)
            && is_suffix(path(n, n.states@[s].fail as int), path(n, s)),
{
    reveal(lmctx);
    lemma_nd_lm_range(n, s, c);
    if nfa_edges(n, s).contains_key(c) {
        let t = nfa_edges(n, s)[c] as int;
        assert(nfa_parent(n, t) == (s, c));
    }
}
proof fn w_lm_opos<V>(n: NfaBuilder<u8, V>, t: int)
    requires lmctx(n), 0 <= t < n.states@.len(), t != 1,
    ensures opos_rec_ok(n, n.outputs@, t, opt_n(n.states@[t].output_pos)),
{ reveal(lmctx); }
proof fn lemma_nd_lm_suffix<V>(n: NfaBuilder<u8, V>, s: int, c: u8, w: Seq<u8>)
    requires lmctx(n), 0 <= s < n.states@.len(), s != 1, is_suffix(path(n, s), w),
    ensures is_suffix(path(n, nfa_nd_lm(n, s, c)), w.push(c)),
    decreases nfa_depth(n, s),
{
    w_lm_unfold(n, s, c);
    if nfa_edges(n, s).contains_key(c) {
        lemma_suffix_push(path(n, s), w, c);
    } else if s == 0 || n.states@[s].fail == 1 {
        assert(path(n, 0).len() == 0);
        assert(is_suffix(path(n, 0), w.push(c)));
    } else {
        let f = n.states@[s].fail as int;
        lemma_suffix_trans(path(n, f), path(n, s), w);
        lemma_nd_lm_suffix(n, f, c, w);
    }
}
