// ASSUMED (build_outputs): output positions and parent links are in range
spec fn nfa_outs_ok<V>(n: NfaBuilder<u8, V>) -> bool {
    &&& forall|t: int| 0 <= t < n.states@.len() ==> opt_n((#[trigger] n.states@[t]).output_pos) <= n.outputs@.len()
    &&& forall|j: int| 0 <= j < n.outputs@.len() ==> out_parent(#[trigger] n.outputs@[j]) <= j
}
