// ---- leftmost kinds: proof that build_fails_leftmost marks a link dead exactly if dead_sem (vocabulary: ghost_pass.rs) ----
// no proper suffix of path(p) longer than k can be extended by c inside the trie
spec fn chase_max<V>(n: NfaBuilder<u8, V>, p: int, c: u8, k: int) -> bool {
    forall|q1: Seq<u8>| is_suffix(q1, path(n, p)) && q1.len() < path(n, p).len() && #[trigger] t_node(n, q1.push(c)) ==> q1.len() <= k
}

// an occurrence that ends where the path ends and starts before every proper suffix node is the path itself
proof fn lemma_wit_suffix<V>(n: NfaBuilder<u8, V>, s: int, st: int, len: int)
    requires pctx(n), 2 <= s < n.states@.len(), dead_wit(n, s, st, len), st + len == path(n, s).len(),
    ensures n.states@[s].output.is_some(),
{
    let xs = path(n, s);
    let pq = xs.subrange(st, st + len);
    assert(pq =~= xs.skip(xs.len() - pq.len()));
    assert(is_suffix(pq, xs));
    assert(t_node(n, pq));
    if st > 0 {
        assert(pq.len() < xs.len());
        assert(false);
    }
    assert(pq =~= xs);
    lemma_depth_is_path_len(n, s);
}
proof fn lemma_dead_output<V>(n: NfaBuilder<u8, V>, s: int)
    requires pctx(n), 2 <= s < n.states@.len(), n.states@[s].output.is_some(),
    ensures dead_sem(n, s),
{
    let xs = path(n, s);
    lemma_depth_is_path_len(n, s);
    let p = nfa_parent(n, s);
    assert(nfa_parent_ok(n, s, p)) by { reveal(pctx); }
    lemma_path_child(n, p.0, p.1);
    assert(xs.len() > 0);
    assert(xs.subrange(0, xs.len() as int) =~= xs);
    assert(is_registered(n, xs));
    assert(dead_wit(n, s, 0, xs.len() as int));
}
proof fn lemma_dead_child<V>(n: NfaBuilder<u8, V>, p: int, c: u8)
    requires pctx(n), 2 <= p < n.states@.len(), nfa_edges(n, p).contains_key(c), dead_sem(n, p),
    ensures dead_sem(n, nfa_edges(n, p)[c] as int),
{
    let s = nfa_edges(n, p)[c] as int;
    lemma_path_child(n, p, c);
    let xp = path(n, p); let xs = path(n, s);
    let (st, len) = choose|st: int, len: int| #[trigger] dead_wit(n, p, st, len);
    assert(xs.subrange(st, st + len) =~= xp.subrange(st, st + len));
    assert(occ(n, xs, st, len));
    assert forall|q: Seq<u8>| is_suffix(q, xs) && q.len() < xs.len() && #[trigger] t_node(n, q) implies st < xs.len() - q.len() by {
        if q.len() > 0 {
            lemma_suffix_drop(q, xp, c);
            lemma_node_prefix(n, q);
            assert(t_node(n, q.drop_last()));
        }
    }
    assert(dead_wit(n, s, st, len));
}
proof fn lemma_within_init<V>(n: NfaBuilder<u8, V>, p: int, f: int)
    requires pctx(n), 2 <= p < n.states@.len(), !dead_sem(n, p), fail_ok(n, p, f),
    ensures within(n, path(n, p), path(n, f).len() as int),
{
    let xp = path(n, p); let xf = path(n, f);
    assert forall|st: int, len: int| #[trigger] occ(n, xp, st, len) implies st >= xp.len() - xf.len() by {
        if st < xp.len() - xf.len() {
            assert(dead_wit(n, p, st, len));
        }
    }
}
proof fn lemma_within_step<V>(n: NfaBuilder<u8, V>, xp: Seq<u8>, f: int, g: int)
    requires pctx(n), within(n, xp, path(n, f).len() as int), is_suffix(path(n, f), xp), 2 <= f < n.states@.len(), !dead_sem(n, f), fail_ok(n, f, g),
    ensures within(n, xp, path(n, g).len() as int),
{
    let xf = path(n, f); let xg = path(n, g);
    lemma_within_init(n, f, g);
    let o = xp.len() - xf.len();
    assert forall|st: int, len: int| #[trigger] occ(n, xp, st, len) implies st >= xp.len() - xg.len() by {
        assert(st >= o);
        assert(xf.subrange(st - o, st - o + len) =~= xp.subrange(st, st + len));
        assert(occ(n, xf, st - o, len));
    }
}
proof fn lemma_max_init<V>(n: NfaBuilder<u8, V>, p: int, c: u8, f: int)
    requires pctx(n), 2 <= p < n.states@.len(), fail_ok(n, p, f),
    ensures chase_max(n, p, c, path(n, f).len() as int),
{
    assert forall|q1: Seq<u8>| is_suffix(q1, path(n, p)) && q1.len() < path(n, p).len() && #[trigger] t_node(n, q1.push(c)) implies q1.len() <= path(n, f).len() by {
        lemma_node_prefix(n, q1.push(c));
        assert(q1.push(c).drop_last() =~= q1);
        assert(t_node(n, q1));
    }
}
// a state without a c-edge: its path extended by c is not a trie node
proof fn lemma_no_edge_no_node<V>(n: NfaBuilder<u8, V>, f: int, c: u8)
    requires pctx(n), 0 <= f < n.states@.len(), f != 1, !nfa_edges(n, f).contains_key(c),
    ensures !t_node(n, path(n, f).push(c)),
{
    lemma_depth_is_path_len(n, f);
    let xc = path(n, f).push(c);
    assert(xc.drop_last() =~= path(n, f));
    assert(xc.last() == c);
    assert(t_edges(n, f) == nfa_edges(n, f));
}
proof fn lemma_max_step<V>(n: NfaBuilder<u8, V>, p: int, c: u8, f: int, g: int)
    requires pctx(n), chase_max(n, p, c, path(n, f).len() as int), is_suffix(path(n, f), path(n, p)), 2 <= f < n.states@.len(),
        !nfa_edges(n, f).contains_key(c), fail_ok(n, f, g),
    ensures chase_max(n, p, c, path(n, g).len() as int),
{
    let xp = path(n, p); let xf = path(n, f);
    lemma_no_edge_no_node(n, f, c);
    assert forall|q1: Seq<u8>| is_suffix(q1, xp) && q1.len() < xp.len() && #[trigger] t_node(n, q1.push(c)) implies q1.len() <= path(n, g).len() by {
        assert(q1.len() <= xf.len());
        if q1.len() == xf.len() {
            assert(q1 =~= xf);
            assert(false);
        }
        lemma_suffix_of_suffix(q1, xf, xp);
        lemma_node_prefix(n, q1.push(c));
        assert(q1.push(c).drop_last() =~= q1);
        assert(t_node(n, q1));
    }
}
// the chase found the edge c at f: the child keeps a live link, so it must not be dead_sem unless it carries an output itself
proof fn lemma_sem_edge<V>(n: NfaBuilder<u8, V>, p: int, c: u8, f: int)
    requires pctx(n), 2 <= p < n.states@.len(), nfa_edges(n, p).contains_key(c), 0 <= f < n.states@.len(), f != 1, nfa_edges(n, f).contains_key(c),
        within(n, path(n, p), path(n, f).len() as int), is_suffix(path(n, f), path(n, p)), path(n, f).len() < path(n, p).len(),
    ensures lm_dead_link(n, nfa_edges(n, p)[c] as int, nfa_edges(n, f)[c] as int),
{
    let s = nfa_edges(n, p)[c] as int; let g = nfa_edges(n, f)[c] as int;
    lemma_path_child(n, p, c);
    lemma_path_child(n, f, c);
    let xp = path(n, p); let xs = path(n, s); let xf = path(n, f); let xg = path(n, g);
    if dead_sem(n, s) && n.states@[s].output.is_none() {
        let (st, len) = choose|st: int, len: int| #[trigger] dead_wit(n, s, st, len);
        lemma_suffix_push(xf, xp, c);
        lemma_depth_is_path_len(n, g);
        assert(t_node(n, xg));
        assert(st < xs.len() - xg.len());
        if st + len == xs.len() { lemma_wit_suffix(n, s, st, len); }
        assert(xp.subrange(st, st + len) =~= xs.subrange(st, st + len));
        assert(occ(n, xp, st, len));
        assert(false);
    }
}
// the chase met a state f without c-edge whose own link is dead: the child is dead_sem
proof fn lemma_sem_dead<V>(n: NfaBuilder<u8, V>, p: int, c: u8, f: int)
    requires pctx(n), 2 <= p < n.states@.len(), nfa_edges(n, p).contains_key(c), 2 <= f < n.states@.len(), !nfa_edges(n, f).contains_key(c),
        is_suffix(path(n, f), path(n, p)), chase_max(n, p, c, path(n, f).len() as int), dead_sem(n, f),
    ensures dead_sem(n, nfa_edges(n, p)[c] as int),
{
    let s = nfa_edges(n, p)[c] as int;
    lemma_path_child(n, p, c);
    let xp = path(n, p); let xs = path(n, s); let xf = path(n, f);
    let (st1, len) = choose|st1: int, len: int| #[trigger] dead_wit(n, f, st1, len);
    let o = xp.len() - xf.len();
    assert(xs.subrange(o + st1, o + st1 + len) =~= xf.subrange(st1, st1 + len));
    assert(occ(n, xs, o + st1, len));
    lemma_no_edge_no_node(n, f, c);
    assert forall|q: Seq<u8>| is_suffix(q, xs) && q.len() < xs.len() && #[trigger] t_node(n, q) implies o + st1 < xs.len() - q.len() by {
        if q.len() > 0 {
            lemma_suffix_drop(q, xp, c);
            let q1 = q.drop_last();
            assert(q1.push(c) =~= q);
            assert(t_node(n, q1.push(c)));
            assert(q1.len() <= xf.len());
            if q1.len() == xf.len() {
                assert(q1 =~= xf);
                assert(false);
            }
            lemma_suffix_of_suffix(q1, xf, xp);
            lemma_node_prefix(n, q);
            assert(t_node(n, q1));
        }
    }
    assert(dead_wit(n, s, o + st1, len));
}
// the chase ended at the root, or the state is a child of the root: nothing registered lies inside the parent's path
proof fn lemma_sem_root<V>(n: NfaBuilder<u8, V>, p: int, c: u8)
    requires pctx(n), 0 <= p < n.states@.len(), p != 1, nfa_edges(n, p).contains_key(c), within(n, path(n, p), 0),
    ensures lm_dead_link(n, nfa_edges(n, p)[c] as int, 0),
{
    let s = nfa_edges(n, p)[c] as int;
    lemma_path_child(n, p, c);
    let xp = path(n, p); let xs = path(n, s);
    if dead_sem(n, s) && n.states@[s].output.is_none() {
        let (st, len) = choose|st: int, len: int| #[trigger] dead_wit(n, s, st, len);
        if st + len == xs.len() { lemma_wit_suffix(n, s, st, len); }
        assert(xp.subrange(st, st + len) =~= xs.subrange(st, st + len));
        assert(occ(n, xp, st, len));
        assert(false);
    }
}
proof fn lemma_within_root<V>(n: NfaBuilder<u8, V>)
    requires pctx(n),
    ensures within(n, path(n, 0), 0),
{
    assert(path(n, 0).len() == 0);
}
// dead_sem only depends on the trie and on which states carry an output
proof fn lemma_dead_sem_same<V>(a: NfaBuilder<u8, V>, b: NfaBuilder<u8, V>, s: int)
    requires passes_frame(a, b), nfa_tree(a), trie_ok(a), 0 <= s < a.states@.len(),
    ensures dead_sem(a, s) == dead_sem(b, s),
{
    lemma_path_same(a, b, s);
    assert forall|t: int| 0 <= t < a.states@.len() implies #[trigger] t_edges(b, t) == t_edges(a, t) by { }
    assert forall|q: Seq<u8>| walk(b, q) == walk(a, q) by { lemma_walk_same_edges(b, a, q); }
    assert forall|q: Seq<u8>| is_registered(a, q) == is_registered(b, q) by {
        if walk(a, q).is_some() { lemma_walk_range(a, q); }
    }
    assert forall|st: int, len: int| dead_wit(a, s, st, len) == dead_wit(b, s, st, len) by {
        assert(occ(a, path(a, s), st, len) == occ(b, path(b, s), st, len));
        if occ(a, path(a, s), st, len) {
            assert(forall|q: Seq<u8>| t_node(a, q) == t_node(b, q));
        }
    }
    if dead_sem(a, s) { let (st, len) = choose|st: int, len: int| #[trigger] dead_wit(a, s, st, len); assert(dead_wit(b, s, st, len)); }
    if dead_sem(b, s) { let (st, len) = choose|st: int, len: int| #[trigger] dead_wit(b, s, st, len); assert(dead_wit(a, s, st, len)); }
}

// ---- the pass invariants ----
#[verifier::opaque]
spec fn lm_sem<V>(n: NfaBuilder<u8, V>, b: NfaBuilder<u8, V>, qs: Seq<u32>) -> bool {
    forall|j: int| 0 <= j < qs.len() ==> lm_dead_link(n, #[trigger] qs[j] as int, b.states@[qs[j] as int].fail as int)
}
// the first d queue entries have been handled: those with an output carry the dead link
#[verifier::opaque]
spec fn lm_marked<V>(n: NfaBuilder<u8, V>, b: NfaBuilder<u8, V>, qs: Seq<u32>, d: int) -> bool {
    forall|j: int| 0 <= j < d && j < qs.len() ==> (n.states@[#[trigger] qs[j] as int].output.is_some() ==> b.states@[qs[j] as int].fail == 1)
}
proof fn lemma_sem_start<V>(n: NfaBuilder<u8, V>)
    ensures lm_sem(n, n, Seq::<u32>::empty()), lm_marked(n, n, Seq::<u32>::empty(), 0),
{ reveal(lm_sem); reveal(lm_marked); }
proof fn lemma_sem_push_root_child<V>(n: NfaBuilder<u8, V>, qs: Seq<u32>, c: u8)
    requires pctx(n), fresh_links(n), lm_sem(n, n, qs), nfa_edges(n, 0).contains_key(c),
    ensures lm_sem(n, n, qs.push(nfa_edges(n, 0)[c])), lm_marked(n, n, qs.push(nfa_edges(n, 0)[c]), 0),
{
    reveal(lm_sem); reveal(lm_marked);
    lemma_pctx_len(n);
    lemma_within_root(n);
    lemma_sem_root(n, 0, c);
    lemma_path_child(n, 0, c);
    let t = nfa_edges(n, 0)[c];
    let q2 = qs.push(t);
    assert(n.states@[t as int].fail == 0);
    assert forall|j: int| 0 <= j < q2.len() implies lm_dead_link(n, #[trigger] q2[j] as int, n.states@[q2[j] as int].fail as int) by {
        if j < qs.len() { assert(q2[j] == qs[j]); }
    }
}
// entry d is marked dead because it carries an output
proof fn lemma_sem_mark<V>(n: NfaBuilder<u8, V>, b: NfaBuilder<u8, V>, b2: NfaBuilder<u8, V>, qs: Seq<u32>, d: int)
    requires pctx(n), lm_inv(n, b, qs), q_basic(n, qs), lm_sem(n, b, qs), lm_marked(n, b, qs, d), 0 <= d < qs.len(), n.states@[qs[d] as int].output.is_some(), set_fail(b, b2, qs[d] as int, 1),
    ensures lm_sem(n, b2, qs), lm_marked(n, b2, qs, d + 1),
{
    reveal(lm_sem); reveal(lm_marked); reveal(q_basic); reveal(lm_inv);
    let s = qs[d] as int;
    lemma_dead_output(n, s);
    assert forall|j: int| 0 <= j < qs.len() implies lm_dead_link(n, #[trigger] qs[j] as int, b2.states@[qs[j] as int].fail as int) by {
        if qs[j] != s { assert(b2.states@[qs[j] as int] == b.states@[qs[j] as int]); }
    }
    assert forall|j: int| 0 <= j < d + 1 && j < qs.len() implies (n.states@[#[trigger] qs[j] as int].output.is_some() ==> b2.states@[qs[j] as int].fail == 1) by {
        if j < d { assert(qs[j] != qs[d]); assert(b2.states@[qs[j] as int] == b.states@[qs[j] as int]); }
    }
}
// entry d carries no output: nothing to mark
proof fn lemma_sem_nomark<V>(n: NfaBuilder<u8, V>, b: NfaBuilder<u8, V>, qs: Seq<u32>, d: int)
    requires lm_marked(n, b, qs, d), 0 <= d < qs.len(), n.states@[qs[d] as int].output.is_none(),
    ensures lm_marked(n, b, qs, d + 1),
{ reveal(lm_marked); }
// the link of a state that is not queued yet is set, and the state is queued
proof fn lemma_sem_set<V>(n: NfaBuilder<u8, V>, b: NfaBuilder<u8, V>, b2: NfaBuilder<u8, V>, qs: Seq<u32>, d: int, t: u32, f: u32)
    requires lm_inv(n, b, qs), lm_sem(n, b, qs), lm_marked(n, b, qs, d), d <= qs.len(), !in_q(qs, t as int), 0 <= t < b.states@.len(), set_fail(b, b2, t as int, f), lm_dead_link(n, t as int, f as int),
    ensures lm_sem(n, b2, qs.push(t)), lm_marked(n, b2, qs.push(t), d),
{
    reveal(lm_sem); reveal(lm_marked); reveal(lm_inv);
    let q2 = qs.push(t);
    assert forall|j: int| 0 <= j < q2.len() implies lm_dead_link(n, #[trigger] q2[j] as int, b2.states@[q2[j] as int].fail as int) by {
        if j < qs.len() { assert(q2[j] == qs[j]); assert(qs[j] != t); assert(b2.states@[qs[j] as int] == b.states@[qs[j] as int]); }
    }
    assert forall|j: int| 0 <= j < d && j < q2.len() implies (n.states@[#[trigger] q2[j] as int].output.is_some() ==> b2.states@[q2[j] as int].fail == 1) by {
        assert(q2[j] == qs[j]); assert(qs[j] != t); assert(b2.states@[qs[j] as int] == b.states@[qs[j] as int]);
    }
}
// a handled state (one of the first d entries): its link is final
proof fn lemma_sem_final<V>(n: NfaBuilder<u8, V>, b: NfaBuilder<u8, V>, qs: Seq<u32>, d: int, j: int)
    requires lm_sem(n, b, qs), lm_marked(n, b, qs, d), 0 <= j < d, j < qs.len(),
    ensures (b.states@[qs[j] as int].fail == 1) <==> dead_sem(n, qs[j] as int),
{ reveal(lm_sem); reveal(lm_marked); }
// a state strictly shallower than entry d - 1 is one of the first d - 1 entries
proof fn lemma_sem_final_shallow<V>(n: NfaBuilder<u8, V>, b: NfaBuilder<u8, V>, qs: Seq<u32>, d: int, u: int)
    requires q_basic(n, qs), lm_sem(n, b, qs), lm_marked(n, b, qs, d), 1 <= d <= qs.len(), in_q(qs, u), nfa_depth(n, u) < nfa_depth(n, qs[d - 1] as int),
    ensures (b.states@[u].fail == 1) <==> dead_sem(n, u),
{
    let j = choose|j: int| 0 <= j < qs.len() && #[trigger] qs[j] == u;
    reveal(q_basic);
    if j >= d - 1 { assert(nfa_depth(n, qs[d - 1] as int) <= nfa_depth(n, qs[j] as int)); }
    lemma_sem_final(n, b, qs, d, j);
}
proof fn lemma_sem_finish<V>(n: NfaBuilder<u8, V>, b: NfaBuilder<u8, V>, qs: Seq<u32>)
    requires pctx(n), lm_inv(n, b, qs), bfs_inv(n, qs, qs.len() as int, Set::<u8>::empty()), lm_sem(n, b, qs), lm_marked(n, b, qs, qs.len() as int),
    ensures lm_dead_ok(b),
{
    reveal(lm_dead_ok); reveal(pctx);
    lemma_lm_frame(n, b, qs);
    assert forall|u: int| 2 <= u < n.states@.len() implies in_q(qs, u) by { lemma_all_in_q(n, qs, u); }
    assert forall|s: int| 2 <= s < b.states@.len() implies (((#[trigger] b.states@[s]).fail == 1) <==> dead_sem(b, s)) by {
        assert(in_q(qs, s));
        let j = choose|j: int| 0 <= j < qs.len() && #[trigger] qs[j] == s;
        lemma_sem_final(n, b, qs, qs.len() as int, j);
        lemma_dead_sem_same(n, b, s);
    }
}
// the output pass keeps the links and the trie: lm_dead_ok carries over
proof fn lemma_dead_ok_frame<V>(a: NfaBuilder<u8, V>, b: NfaBuilder<u8, V>)
    requires passes_frame(a, b), pctx(a), lm_dead_ok(a), forall|s: int| 0 <= s < a.states@.len() ==> (#[trigger] b.states@[s]).fail == a.states@[s].fail,
    ensures lm_dead_ok(b),
{
    reveal(lm_dead_ok); reveal(pctx);
    assert forall|s: int| 2 <= s < b.states@.len() implies (((#[trigger] b.states@[s]).fail == 1) <==> dead_sem(b, s)) by {
        assert(a.states@[s].fail == b.states@[s].fail);
        lemma_dead_sem_same(a, b, s);
    }
}

// ---- the output pass: own record or the position of the fail target ----
#[verifier::opaque]
spec fn outs_inh<V>(n: NfaBuilder<u8, V>, b: NfaBuilder<u8, V>, qs: Seq<u32>, i: int) -> bool {
    forall|j: int| 0 <= j < i ==> inh_at(n, b, #[trigger] qs[j] as int)
}
proof fn lemma_outs_inh_start<V>(n: NfaBuilder<u8, V>, qs: Seq<u32>)
    ensures outs_inh(n, n, qs, 0),
{ reveal(outs_inh); }
// an earlier queue entry j and its fail target are different from entry i
proof fn lemma_octx_prev<V>(n: NfaBuilder<u8, V>, qs: Seq<u32>, i: int, j: int)
    requires octx(n, qs), 0 <= j < i < qs.len(),
    ensures ({ let ft = n.states@[qs[j] as int].fail as int; qs[j] != qs[i] && 0 <= ft < n.states@.len() && ft != qs[i] && 2 <= qs[j] < n.states@.len() && 2 <= qs[i] < n.states@.len() }),
{
    reveal(octx);
    lemma_fail_earlier(n, qs, j);
    let ft = n.states@[qs[j] as int].fail as int;
    if ft >= 2 {
        let jf = choose|jf: int| 0 <= jf < qs.take(j).len() && #[trigger] qs.take(j)[jf] == ft;
        assert(qs[jf] == ft);
        assert(qs[jf] != qs[i]);
    }
}
proof fn lemma_outs_inh_step<V>(n: NfaBuilder<u8, V>, b: NfaBuilder<u8, V>, b2: NfaBuilder<u8, V>, qs: Seq<u32>, i: int)
    requires octx(n, qs), outs_inv(n, b, qs, i), outs_inh(n, b, qs, i), 0 <= i < qs.len(), outs_step_rel(n, b, b2, qs, i),
    ensures outs_inh(n, b2, qs, i + 1),
{
    reveal(outs_inh);
    let s = qs[i] as int; let f = n.states@[s].fail as int;
    lemma_octx_entry(n, qs, i);
    lemma_outs_frame(n, b, qs, i);
    let outs = b.outputs@; let outs2 = b2.outputs@;
    assert forall|j: int| 0 <= j < i + 1 implies inh_at(n, b2, #[trigger] qs[j] as int) by {
        let t = qs[j] as int;
        if j < i {
            lemma_octx_prev(n, qs, i, j);
            let ft = n.states@[t].fail as int;
            assert(b2.states@[t] == b.states@[t]);
            assert(b2.states@[ft] == b.states@[ft]);
            assert(inh_at(n, b, t));
            let o = opt_n(b.states@[t].output_pos);
            if o != 0 && o <= outs.len() { assert(outs2[o - 1] == outs[o - 1]); }
        } else {
            assert(t == s);
            assert(b2.states@[f] == b.states@[f]);
            match n.states@[s].output {
                Some(x) => {
                    let k = outs.len() as int;
                    assert(outs2[k] == (Output { value: x.0, length: x.1@, parent: b.states@[f].output_pos }));
                    assert(opt_n(b2.states@[s].output_pos) == k + 1);
                }
                None => { }
            }
        }
    }
}
proof fn lemma_outs_inh_finish<V>(n: NfaBuilder<u8, V>, b: NfaBuilder<u8, V>, qs: Seq<u32>)
    requires octx(n, qs), outs_inv(n, b, qs, qs.len() as int), outs_inh(n, b, qs, qs.len() as int),
    ensures opos_inherit(b),
{
    reveal(outs_inv); reveal(outs_inh); reveal(octx); reveal(opos_inherit);
    assert(qs.take(qs.len() as int) =~= qs);
    assert(!in_q(qs, 0)) by { if in_q(qs, 0) { let j = choose|j: int| 0 <= j < qs.len() && #[trigger] qs[j] == 0; } }
    assert(!in_q(qs, 1)) by { if in_q(qs, 1) { let j = choose|j: int| 0 <= j < qs.len() && #[trigger] qs[j] == 1; } }
    assert forall|s: int| 2 <= s < b.states@.len() implies #[trigger] inh_at(b, b, s) by {
        assert(in_q(qs, s));
        let j = choose|j: int| 0 <= j < qs.len() && #[trigger] qs[j] == s;
        assert(inh_at(n, b, qs[j] as int));
        assert(b.states@[s].fail == n.states@[s].fail && b.states@[s].output == n.states@[s].output);
    }
}
proof fn lemma_lm_fail_ok_frame<V>(a: NfaBuilder<u8, V>, b: NfaBuilder<u8, V>)
    requires passes_frame(a, b), pctx(a), lm_fail_ok(a), forall|s: int| 0 <= s < a.states@.len() ==> (#[trigger] b.states@[s]).fail == a.states@[s].fail,
    ensures lm_fail_ok(b),
{
    reveal(pctx);
    assert forall|s: int| 2 <= s < b.states@.len() implies ((#[trigger] b.states@[s]).fail == 1 || fail_ok(b, s, b.states@[s].fail as int)) by {
        assert(a.states@[s].fail == b.states@[s].fail);
        if a.states@[s].fail != 1 { lemma_fail_ok_same(a, b, s, a.states@[s].fail as int); }
    }
}
