// ---- ghost vocabulary for NfaBuilder::add: the trie as a function from label sequences to states ----
spec fn t_edges<L, V>(n: NfaBuilder<L, V>, s: int) -> Map<L, u32> { n.states@[s].edges@ }

// state reached from the root by following p (None if the path leaves the trie)
spec fn walk<L, V>(n: NfaBuilder<L, V>, p: Seq<L>) -> Option<int>
    decreases p.len()
{
    if p.len() == 0 { Some(0) } else {
        match walk(n, p.drop_last()) {
            Some(s) => if 0 <= s < n.states@.len() && t_edges(n, s).contains_key(p.last()) { Some(t_edges(n, s)[p.last()] as int) } else { None },
            None => None,
        }
    }
}

// structure of the trie: root 0, dead 1 (no edges, never a target), ids grow along edges, one parent per state
spec fn trie_ok<L, V>(n: NfaBuilder<L, V>) -> bool {
    let len = n.states@.len();
    &&& 2 <= len
    &&& forall|c: L| !t_edges(n, 1).contains_key(c)
    &&& forall|s: int, c: L| 0 <= s < len && #[trigger] t_edges(n, s).contains_key(c) ==> 2 <= t_edges(n, s)[c] < len && s < t_edges(n, s)[c]
    &&& forall|s1: int, c1: L, s2: int, c2: L| 0 <= s1 < len && 0 <= s2 < len && #[trigger] t_edges(n, s1).contains_key(c1) && #[trigger] t_edges(n, s2).contains_key(c2)
            && t_edges(n, s1)[c1] == t_edges(n, s2)[c2] ==> s1 == s2 && c1 == c2
    &&& n.states@[0].output.is_none() && n.states@[1].output.is_none()
}

// patterns that are registered: their walk ends in a state carrying an output
spec fn is_registered<L, V>(n: NfaBuilder<L, V>, p: Seq<L>) -> bool {
    walk(n, p).is_some() && 0 <= walk(n, p).unwrap() < n.states@.len() && n.states@[walk(n, p).unwrap()].output.is_some()
}
// patterns seen so far (registered, or skipped because an earlier-registered proper prefix shadows them)
spec fn seen<L, V>(n: NfaBuilder<L, V>, p: Seq<L>) -> bool { is_registered(n, p) || skipped_view(n.skipped).contains(p) }

spec fn byte_len<L: EdgeLabel>(p: Seq<L>) -> nat
    decreases p.len()
{
    if p.len() == 0 { 0 } else { byte_len(p.drop_last()) + p.last().nb() }
}

// the state `add` leaves behind: no fail link and no output position assigned yet
spec fn fresh_links<L, V>(n: NfaBuilder<L, V>) -> bool {
    forall|s: int| 0 <= s < n.states@.len() ==> (#[trigger] n.states@[s]).fail == 0 && n.states@[s].output_pos.is_none()
}
// invariant of the builder between calls of add
spec fn add_inv<L: EdgeLabel, V>(n: NfaBuilder<L, V>) -> bool {
    &&& trie_ok(n)
    &&& n.states@.len() <= u32::MAX as nat + 1
    // skipped patterns exist only under leftmost-first and always have a registered proper prefix
    &&& (!(n.match_kind is LeftmostFirst) ==> forall|p: Seq<L>| !skipped_view(n.skipped).contains(p))
    &&& forall|p: Seq<L>| #[trigger] skipped_view(n.skipped).contains(p) ==> exists|k: int| 0 <= k < p.len() && is_registered(n, p.take(k))
    // the recorded length of a registered pattern is its length in bytes
    &&& forall|p: Seq<L>| #[trigger] is_registered(n, p) ==> n.states@[walk(n, p).unwrap()].output.unwrap().1@ == byte_len(p)
}

proof fn lemma_walk_range<L, V>(n: NfaBuilder<L, V>, p: Seq<L>)
    requires trie_ok(n), walk(n, p).is_some(),
    ensures 0 <= walk(n, p).unwrap() < n.states@.len(), walk(n, p).unwrap() != 1,
        p.len() > 0 ==> walk(n, p).unwrap() >= 2,
    decreases p.len(),
{
    if p.len() > 0 { lemma_walk_range(n, p.drop_last()); }
}

// two label sequences that reach the same state are equal
proof fn lemma_walk_inj<L, V>(n: NfaBuilder<L, V>, p: Seq<L>, q: Seq<L>)
    requires trie_ok(n), walk(n, p).is_some(), walk(n, p) == walk(n, q),
    ensures p == q,
    decreases p.len(),
{
    lemma_walk_range(n, p);
    lemma_walk_range(n, q);
    if p.len() == 0 {
        if q.len() > 0 { }
    } else {
        if q.len() == 0 { }
        else {
            let sp = walk(n, p.drop_last()).unwrap(); let sq = walk(n, q.drop_last()).unwrap();
            lemma_walk_range(n, p.drop_last());
            lemma_walk_range(n, q.drop_last());
            assert(t_edges(n, sp).contains_key(p.last()) && t_edges(n, sq).contains_key(q.last()));
            assert(sp == sq && p.last() == q.last());
            lemma_walk_inj(n, p.drop_last(), q.drop_last());
            assert(p =~= p.drop_last().push(p.last()));
            assert(q =~= q.drop_last().push(q.last()));
        }
    }
}

// ---- one trie extension: state s gets a new edge c to a fresh last state ----
spec fn extended<L, V>(n: NfaBuilder<L, V>, n2: NfaBuilder<L, V>, s: int, c: L) -> bool {
    let len = n.states@.len();
    &&& n2.states@.len() == len + 1
    &&& forall|t: int| 0 <= t < len && t != s ==> #[trigger] n2.states@[t] == n.states@[t]
    &&& n2.states@[s].edges@ == n.states@[s].edges@.insert(c, len as u32)
    &&& n2.states@[s].output == n.states@[s].output
    &&& n2.states@[len as int].edges@ == Map::<L, u32>::empty()
    &&& n2.states@[len as int].output.is_none()
}

proof fn lemma_extend_trie<L, V>(n: NfaBuilder<L, V>, n2: NfaBuilder<L, V>, s: int, c: L)
    requires trie_ok(n), extended(n, n2, s, c), 0 <= s < n.states@.len(), s != 1, !t_edges(n, s).contains_key(c), n.states@.len() <= u32::MAX,
    ensures trie_ok(n2),
{
    let len = n.states@.len();
    assert forall|t: int, d: L| 0 <= t < len + 1 && #[trigger] t_edges(n2, t).contains_key(d) implies 2 <= t_edges(n2, t)[d] < len + 1 && t < t_edges(n2, t)[d] by {
        if t == len { } else if t == s { if d == c { } else { assert(t_edges(n, s).contains_key(d)); } } else { assert(n2.states@[t] == n.states@[t]); assert(t_edges(n, t).contains_key(d)); }
    }
    assert forall|s1: int, c1: L, s2: int, c2: L| 0 <= s1 < len + 1 && 0 <= s2 < len + 1 && #[trigger] t_edges(n2, s1).contains_key(c1) && #[trigger] t_edges(n2, s2).contains_key(c2)
            && t_edges(n2, s1)[c1] == t_edges(n2, s2)[c2] implies s1 == s2 && c1 == c2 by {
        // old targets are < len, the new target is len
        if s1 < len && s1 != s { assert(n2.states@[s1] == n.states@[s1]); }
        if s2 < len && s2 != s { assert(n2.states@[s2] == n.states@[s2]); }
        let new1 = s1 == s && c1 == c;
        let new2 = s2 == s && c2 == c;
        if !new1 && s1 < len { assert(t_edges(n, s1).contains_key(c1) && t_edges(n, s1)[c1] == t_edges(n2, s1)[c1]); }
        if !new2 && s2 < len { assert(t_edges(n, s2).contains_key(c2) && t_edges(n, s2)[c2] == t_edges(n2, s2)[c2]); }
    }
    assert(n2.states@[1] == n.states@[1]);
    assert forall|d: L| !t_edges(n2, 1).contains_key(d) by { assert(t_edges(n2, 1) == t_edges(n, 1)); assert(!t_edges(n, 1).contains_key(d)); }
    if s != 0 { assert(n2.states@[0] == n.states@[0]); }
    assert(n2.states@[1] == n.states@[1]);
}

// old walks are preserved
proof fn lemma_extend_mono<L, V>(n: NfaBuilder<L, V>, n2: NfaBuilder<L, V>, s: int, c: L, q: Seq<L>)
    requires trie_ok(n), extended(n, n2, s, c), 0 <= s < n.states@.len(), !t_edges(n, s).contains_key(c), walk(n, q).is_some(),
    ensures walk(n2, q) == walk(n, q),
    decreases q.len(),
{
    if q.len() > 0 {
        lemma_extend_mono(n, n2, s, c, q.drop_last());
        lemma_walk_range(n, q.drop_last());
        let t = walk(n, q.drop_last()).unwrap();
        if t != s { assert(n2.states@[t] == n.states@[t]); }
    }
}

// new walks either are old walks or end in the fresh state through the new edge
proof fn lemma_extend_back<L, V>(n: NfaBuilder<L, V>, n2: NfaBuilder<L, V>, s: int, c: L, q: Seq<L>)
    requires trie_ok(n), extended(n, n2, s, c), 0 <= s < n.states@.len(), s != 1, !t_edges(n, s).contains_key(c), n.states@.len() <= u32::MAX, walk(n2, q).is_some(),
    ensures
        walk(n2, q).unwrap() < n.states@.len() ==> walk(n, q) == walk(n2, q),
        walk(n2, q).unwrap() >= n.states@.len() ==> walk(n2, q).unwrap() == n.states@.len() && q.len() > 0 && walk(n, q.drop_last()) == Some(s) && q.last() == c,
    decreases q.len(),
{
    let len = n.states@.len();
    if q.len() > 0 {
        lemma_extend_trie(n, n2, s, c);
        lemma_extend_back(n, n2, s, c, q.drop_last());
        lemma_walk_range(n2, q.drop_last());
        let t = walk(n2, q.drop_last()).unwrap();
        // the fresh state has no outgoing edge, so the last-but-one state is an old one
        assert(t < len) by { if t >= len { assert(t == len); assert(t_edges(n2, len as int).contains_key(q.last())); } }
        assert(walk(n, q.drop_last()) == Some(t));
        if t != s { assert(n2.states@[t] == n.states@[t]); }
        else if q.last() != c { assert(t_edges(n, s).contains_key(q.last())); }
    }
}

proof fn lemma_byte_len_mono<L: EdgeLabel>(p: Seq<L>, k: int)
    requires 0 <= k <= p.len(),
    ensures byte_len(p.take(k)) <= byte_len(p), byte_len(p) >= p.len(),
        k < p.len() ==> byte_len(p.take(k + 1)) == byte_len(p.take(k)) + p[k].nb(),
    decreases p.len() - k,
{
    if k < p.len() {
        assert(p.take(k + 1).drop_last() =~= p.take(k));
        assert(p.take(k + 1).last() == p[k]);
        lemma_byte_len_mono(p, k + 1);
    } else {
        assert(p.take(k) =~= p);
    }
    lemma_byte_len_ge(p);
}
proof fn lemma_byte_len_ge<L: EdgeLabel>(p: Seq<L>)
    ensures byte_len(p) >= p.len(),
    decreases p.len(),
{
    if p.len() > 0 { lemma_byte_len_ge(p.drop_last()); lemma_nb_pos(p.last()); }
}
// every label has at least one byte (trait law, from the contract of num_bytes)
proof fn lemma_nb_pos<L: EdgeLabel>(c: L)
    ensures 1 <= c.nb() <= 4,
{
    L::lemma_nb(c);
}

// ---- the state of `add` after consuming i labels of the pattern ----
spec fn same_rest<L, V>(a: NfaBuilder<L, V>, b: NfaBuilder<L, V>) -> bool {
    a.skipped == b.skipped && a.match_kind == b.match_kind && a.len == b.len && a.outputs == b.outputs
}

#[verifier::opaque]
spec fn add_mid<L, V>(n0: NfaBuilder<L, V>, cur: NfaBuilder<L, V>, pat: Seq<L>, i: int, sid: int) -> bool {
    let l0 = n0.states@.len();
    &&& trie_ok(cur) && l0 <= cur.states@.len() <= u32::MAX as nat + 1 && same_rest(n0, cur)
    &&& 0 <= i <= pat.len()
    &&& walk(cur, pat.take(i)) == Some(sid)
    &&& forall|q: Seq<L>| (#[trigger] walk(n0, q)).is_some() ==> walk(cur, q) == walk(n0, q)
    &&& forall|q: Seq<L>| (#[trigger] walk(cur, q)).is_some() && walk(cur, q).unwrap() < l0 ==> walk(n0, q) == walk(cur, q)
    &&& forall|q: Seq<L>| (#[trigger] walk(cur, q)).is_some() && walk(cur, q).unwrap() >= l0 ==> exists|k: int| 0 <= k <= i && q == pat.take(k)
    &&& forall|t: int| 0 <= t < l0 ==> (#[trigger] cur.states@[t]).output == n0.states@[t].output
    &&& forall|t: int| l0 <= t < cur.states@.len() ==> (#[trigger] cur.states@[t]).output.is_none()
}

proof fn lemma_add_mid_init<L, V>(n0: NfaBuilder<L, V>, pat: Seq<L>)
    requires trie_ok(n0), n0.states@.len() <= u32::MAX as nat + 1,
    ensures add_mid(n0, n0, pat, 0, 0),
{
    reveal(add_mid);
    assert(pat.take(0) =~= Seq::<L>::empty());
    assert forall|q: Seq<L>| (#[trigger] walk(n0, q)).is_some() && walk(n0, q).unwrap() >= n0.states@.len() implies exists|k: int| 0 <= k <= 0 && q == pat.take(k) by {
        lemma_walk_range(n0, q);
    }
}

proof fn lemma_add_mid_facts<L, V>(n0: NfaBuilder<L, V>, cur: NfaBuilder<L, V>, pat: Seq<L>, i: int, sid: int)
    requires add_mid(n0, cur, pat, i, sid),
    ensures trie_ok(cur), n0.states@.len() <= cur.states@.len() <= u32::MAX as nat + 1, same_rest(n0, cur), 0 <= i <= pat.len(),
        walk(cur, pat.take(i)) == Some(sid), 0 <= sid < cur.states@.len(), sid != 1,
        sid < n0.states@.len() ==> cur.states@[sid].output == n0.states@[sid].output && walk(n0, pat.take(i)) == Some(sid),
        sid >= n0.states@.len() ==> cur.states@[sid].output.is_none(),
{
    reveal(add_mid);
    lemma_walk_range(cur, pat.take(i));
}

// following an existing edge
proof fn lemma_add_mid_follow<L, V>(n0: NfaBuilder<L, V>, cur: NfaBuilder<L, V>, pat: Seq<L>, i: int, sid: int, next: int)
    requires add_mid(n0, cur, pat, i, sid), i < pat.len(), t_edges(cur, sid).contains_key(pat[i]), next == t_edges(cur, sid)[pat[i]],
    ensures add_mid(n0, cur, pat, i + 1, next),
{
    reveal(add_mid);
    lemma_walk_range(cur, pat.take(i));
    assert(pat.take(i + 1).drop_last() =~= pat.take(i));
    assert(pat.take(i + 1).last() == pat[i]);
    assert forall|q: Seq<L>| (#[trigger] walk(cur, q)).is_some() && walk(cur, q).unwrap() >= n0.states@.len() implies exists|k: int| 0 <= k <= i + 1 && q == pat.take(k) by {
        let k = choose|k: int| 0 <= k <= i && q == pat.take(k);
        assert(0 <= k <= i + 1);
    }
}

// creating a new state behind a new edge
proof fn lemma_add_mid_extend<L, V>(n0: NfaBuilder<L, V>, cur: NfaBuilder<L, V>, cur2: NfaBuilder<L, V>, pat: Seq<L>, i: int, sid: int)
    requires add_mid(n0, cur, pat, i, sid), i < pat.len(), !t_edges(cur, sid).contains_key(pat[i]), cur.states@.len() <= u32::MAX,
        extended(cur, cur2, sid, pat[i]), same_rest(cur, cur2),
    ensures add_mid(n0, cur2, pat, i + 1, cur.states@.len() as int),
{
    reveal(add_mid);
    let len = cur.states@.len(); let c = pat[i]; let l0 = n0.states@.len();
    lemma_walk_range(cur, pat.take(i));
    lemma_extend_trie(cur, cur2, sid, c);
    assert(pat.take(i + 1).drop_last() =~= pat.take(i));
    assert(pat.take(i + 1).last() == c);
    lemma_extend_mono(cur, cur2, sid, c, pat.take(i));
    assert(walk(cur2, pat.take(i + 1)) == Some(len as int));
    assert forall|q: Seq<L>| (#[trigger] walk(n0, q)).is_some() implies walk(cur2, q) == walk(n0, q) by {
        assert(walk(cur, q) == walk(n0, q));
        lemma_extend_mono(cur, cur2, sid, c, q);
    }
    assert forall|q: Seq<L>| (#[trigger] walk(cur2, q)).is_some() && walk(cur2, q).unwrap() < l0 implies walk(n0, q) == walk(cur2, q) by {
        lemma_extend_back(cur, cur2, sid, c, q);
        assert(walk(cur, q) == walk(cur2, q));
    }
    assert forall|q: Seq<L>| (#[trigger] walk(cur2, q)).is_some() && walk(cur2, q).unwrap() >= l0 implies exists|k: int| 0 <= k <= i + 1 && q == pat.take(k) by {
        lemma_extend_back(cur, cur2, sid, c, q);
        if walk(cur2, q).unwrap() < len {
            assert(walk(cur, q) == walk(cur2, q));
            let k = choose|k: int| 0 <= k <= i && q == pat.take(k);
            assert(0 <= k <= i + 1);
        } else {
            // q = (path to sid) ++ [c], and the path to sid is pat.take(i) by injectivity
            lemma_walk_inj(cur, q.drop_last(), pat.take(i));
            assert(q =~= pat.take(i).push(c));
            assert(pat.take(i + 1) =~= pat.take(i).push(c));
        }
    }
    assert forall|t: int| 0 <= t < l0 implies (#[trigger] cur2.states@[t]).output == n0.states@[t].output by {
        if t != sid { assert(cur2.states@[t] == cur.states@[t]); }
    }
    assert forall|t: int| l0 <= t < cur2.states@.len() implies (#[trigger] cur2.states@[t]).output.is_none() by {
        if t < len && t != sid { assert(cur2.states@[t] == cur.states@[t]); }
    }
}

// the new pattern gets its output: final step of a successful add
spec fn with_output<L, V>(cur: NfaBuilder<L, V>, fin: NfaBuilder<L, V>, sid: int, out: (V, NonZeroU32)) -> bool {
    &&& fin.states@.len() == cur.states@.len()
    &&& forall|t: int| 0 <= t < cur.states@.len() && t != sid ==> #[trigger] fin.states@[t] == cur.states@[t]
    &&& fin.states@[sid].edges@ == cur.states@[sid].edges@
    &&& fin.states@[sid].output == Some(out)
    &&& fin.skipped == cur.skipped && fin.match_kind == cur.match_kind
}

proof fn lemma_walk_same_edges<L, V>(a: NfaBuilder<L, V>, b: NfaBuilder<L, V>, q: Seq<L>)
    requires a.states@.len() == b.states@.len(), forall|t: int| 0 <= t < a.states@.len() ==> #[trigger] t_edges(a, t) == t_edges(b, t),
    ensures walk(a, q) == walk(b, q),
    decreases q.len(),
{
    if q.len() > 0 {
        lemma_walk_same_edges(a, b, q.drop_last());
        match walk(a, q.drop_last()) { Some(s) => { if 0 <= s < a.states@.len() { assert(t_edges(a, s) == t_edges(b, s)); } } None => {} }
    }
}

proof fn lemma_add_finish_dup<L: EdgeLabel, V>(n0: NfaBuilder<L, V>, cur: NfaBuilder<L, V>, pat: Seq<L>, sid: int)
    requires add_mid(n0, cur, pat, pat.len() as int, sid), cur.states@[sid].output.is_some(),
    ensures is_registered(n0, pat),
{
    reveal(add_mid);
    assert(pat.take(pat.len() as int) =~= pat);
    lemma_walk_range(cur, pat);
    assert(sid < n0.states@.len());
}

proof fn lemma_add_finish_ok<L: EdgeLabel, V>(n0: NfaBuilder<L, V>, cur: NfaBuilder<L, V>, fin: NfaBuilder<L, V>, pat: Seq<L>, sid: int, out: (V, NonZeroU32))
    requires add_inv(n0), add_mid(n0, cur, pat, pat.len() as int, sid), pat.len() > 0, cur.states@[sid].output.is_none(),
        with_output(cur, fin, sid, out), out.1@ == byte_len(pat),
        forall|k: int| 0 <= k < pat.len() ==> !skipped_view(n0.skipped).contains(pat) || !#[trigger] is_registered(n0, pat.take(k)),
    ensures add_inv(fin), !seen(n0, pat),
        forall|q: Seq<L>| #[trigger] seen(fin, q) <==> (seen(n0, q) || q == pat),
        forall|q: Seq<L>| #[trigger] is_registered(fin, q) <==> (is_registered(n0, q) || q == pat),
{
    reveal(add_mid);
    let l0 = n0.states@.len();
    assert(pat.take(pat.len() as int) =~= pat);
    lemma_walk_range(cur, pat);
    assert(sid >= 2);
    // walks of fin are the walks of cur
    assert forall|q: Seq<L>| walk(fin, q) == walk(cur, q) by {
        assert forall|t: int| 0 <= t < cur.states@.len() implies #[trigger] t_edges(fin, t) == t_edges(cur, t) by { if t != sid { assert(fin.states@[t] == cur.states@[t]); } }
        lemma_walk_same_edges(fin, cur, q);
    }
    // trie_ok(fin)
    assert forall|t: int| 0 <= t < cur.states@.len() implies #[trigger] t_edges(fin, t) == t_edges(cur, t) by { if t != sid { assert(fin.states@[t] == cur.states@[t]); } }
    assert(fin.states@[0] == cur.states@[0] && fin.states@[1] == cur.states@[1]);
    assert(trie_ok(fin));
    // registered patterns
    assert forall|q: Seq<L>| #[trigger] is_registered(fin, q) <==> (is_registered(n0, q) || q == pat) by {
        if is_registered(fin, q) {
            let t = walk(cur, q).unwrap();
            if t == sid { lemma_walk_inj(cur, q, pat); }
            else { assert(fin.states@[t] == cur.states@[t]); assert(t < l0); assert(walk(n0, q) == walk(cur, q)); }
        }
        if is_registered(n0, q) {
            let t = walk(n0, q).unwrap();
            lemma_walk_range(n0, q);
            assert(walk(cur, q) == Some(t));
            if t != sid { assert(fin.states@[t] == cur.states@[t]); }
        }
    }
    // the pattern is new
    assert(!is_registered(n0, pat)) by {
        if walk(n0, pat).is_some() { lemma_walk_range(n0, pat); assert(walk(cur, pat) == walk(n0, pat)); }
    }
    assert(!skipped_view(n0.skipped).contains(pat)) by {
        if skipped_view(n0.skipped).contains(pat) {
            let k = choose|k: int| 0 <= k < pat.len() && is_registered(n0, pat.take(k));
        }
    }
    assert forall|q: Seq<L>| #[trigger] seen(fin, q) <==> (seen(n0, q) || q == pat) by { }
    // add_inv(fin)
    assert forall|p: Seq<L>| #[trigger] skipped_view(fin.skipped).contains(p) implies exists|k: int| 0 <= k < p.len() && is_registered(fin, p.take(k)) by {
        let k = choose|k: int| 0 <= k < p.len() && is_registered(n0, p.take(k));
        assert(is_registered(fin, p.take(k)));
    }
    assert forall|p: Seq<L>| #[trigger] is_registered(fin, p) implies fin.states@[walk(fin, p).unwrap()].output.unwrap().1@ == byte_len(p) by {
        if p == pat { } else {
            assert(is_registered(n0, p));
            let t = walk(n0, p).unwrap();
            lemma_walk_range(n0, p);
            assert(walk(cur, p) == Some(t));
            if t == sid { lemma_walk_inj(cur, p, pat); }
            assert(fin.states@[t] == cur.states@[t]);
        }
    }
}

// ---- values: the output stored for a registered pattern is the value the caller passed, and later adds do not touch it ----
spec fn reg_out<L, V>(n: NfaBuilder<L, V>, q: Seq<L>) -> Option<(V, NonZeroU32)> { n.states@[walk(n, q).unwrap()].output }

proof fn lemma_add_values<L: EdgeLabel, V>(n0: NfaBuilder<L, V>, cur: NfaBuilder<L, V>, fin: NfaBuilder<L, V>, pat: Seq<L>, sid: int, out: (V, NonZeroU32))
    requires add_inv(n0), add_mid(n0, cur, pat, pat.len() as int, sid), pat.len() > 0, cur.states@[sid].output.is_none(),
        with_output(cur, fin, sid, out),
    ensures is_registered(fin, pat), reg_out(fin, pat) == Some(out),
        forall|q: Seq<L>| is_registered(n0, q) ==> #[trigger] reg_out(fin, q) == reg_out(n0, q),
{
    reveal(add_mid);
    assert(pat.take(pat.len() as int) =~= pat);
    lemma_walk_range(cur, pat);
    assert forall|t: int| 0 <= t < cur.states@.len() implies #[trigger] t_edges(fin, t) == t_edges(cur, t) by { if t != sid { assert(fin.states@[t] == cur.states@[t]); } }
    assert forall|q: Seq<L>| walk(fin, q) == walk(cur, q) by { lemma_walk_same_edges(fin, cur, q); }
    assert forall|q: Seq<L>| is_registered(n0, q) implies #[trigger] reg_out(fin, q) == reg_out(n0, q) by {
        let t = walk(n0, q).unwrap();
        lemma_walk_range(n0, q);
        assert(walk(cur, q) == Some(t));
        assert(t != sid);
        assert(fin.states@[t] == cur.states@[t]);
    }
}
proof fn lemma_same_states_values<L, V>(a: NfaBuilder<L, V>, b: NfaBuilder<L, V>)
    requires a.states@ == b.states@,
    ensures forall|q: Seq<L>| #[trigger] reg_out(b, q) == reg_out(a, q), forall|q: Seq<L>| walk(b, q) == walk(a, q),
{
    assert forall|q: Seq<L>| walk(b, q) == walk(a, q) by { lemma_walk_same_edges(b, a, q); }
}

// what a build wrapper establishes about its trie for the pattern list ps with values vs (kinds without shadowing): exactly the listed
// patterns are registered, each with its value and its length in bytes (used by the C08 unit to relate the two variants)
spec fn regs<L: EdgeLabel, V>(n: NfaBuilder<L, V>, ps: Seq<Seq<L>>, vs: Seq<V>) -> bool {
    &&& ps.len() == vs.len() && trie_ok(n)
    &&& forall|q: Seq<L>| #[trigger] is_registered(n, q) <==> exists|j: int| 0 <= j < ps.len() && #[trigger] ps[j] == q
    &&& forall|j: int| 0 <= j < ps.len() ==> reg_out(n, #[trigger] ps[j]).unwrap().0 == vs[j]
    &&& forall|q: Seq<L>| #[trigger] is_registered(n, q) ==> reg_out(n, q).unwrap().1@ == byte_len(q)
}
