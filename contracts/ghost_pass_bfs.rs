// ---- proof vocabulary for build_fails / build_fails_leftmost / build_outputs (nfa_builder.rs): the breadth-first queue ----
// n is always the trie as `add` left it (*old(self)): the passes change fail / output_pos / outputs only, so every structural
// notion (parent, depth, path, node) is taken over n and never over the changing builder.

// the structural hypotheses in one opaque bundle
#[verifier::opaque]
spec fn pctx<V>(n: NfaBuilder<u8, V>) -> bool { nfa_tree(n) && trie_ok(n) }

// same trie, other fail / output_pos: parents, depths, paths and nodes coincide
proof fn lemma_parent_same<V>(a: NfaBuilder<u8, V>, b: NfaBuilder<u8, V>, t: int)
    requires passes_frame(a, b), nfa_tree(a), trie_ok(a), 2 <= t < a.states@.len(),
    ensures nfa_parent(b, t) == nfa_parent(a, t), nfa_parent_ok(a, t, nfa_parent(a, t)),
{
    let pa = nfa_parent(a, t);
    assert(nfa_parent_ok(a, t, pa));
    assert(b.states@[pa.0].edges@ == a.states@[pa.0].edges@);
    assert(nfa_parent_ok(b, t, pa));
    let pb = nfa_parent(b, t);
    assert(nfa_parent_ok(b, t, pb));
    assert(b.states@[pb.0].edges@ == a.states@[pb.0].edges@);
    assert(t_edges(a, pa.0).contains_key(pa.1) && t_edges(a, pb.0).contains_key(pb.1));
    assert(pa == pb);
}
proof fn lemma_path_same<V>(a: NfaBuilder<u8, V>, b: NfaBuilder<u8, V>, t: int)
    requires passes_frame(a, b), nfa_tree(a), trie_ok(a), 0 <= t < a.states@.len(),
    ensures path(b, t) == path(a, t), nfa_depth(b, t) == nfa_depth(a, t),
    decreases t,
{
    if t >= 2 {
        lemma_parent_same(a, b, t);
        lemma_path_same(a, b, nfa_parent(a, t).0);
    }
}
proof fn lemma_fail_ok_same<V>(a: NfaBuilder<u8, V>, b: NfaBuilder<u8, V>, s: int, f: int)
    requires passes_frame(a, b), nfa_tree(a), trie_ok(a), 2 <= s < a.states@.len(), fail_ok(a, s, f),
    ensures fail_ok(b, s, f),
{
    lemma_path_same(a, b, s);
    lemma_path_same(a, b, f);
    assert forall|q: Seq<u8>| is_suffix(q, path(b, s)) && q.len() < path(b, s).len() && #[trigger] t_node(b, q) implies q.len() <= path(b, f).len() by {
        assert forall|t: int| 0 <= t < a.states@.len() implies #[trigger] t_edges(b, t) == t_edges(a, t) by { }
        lemma_walk_same_edges(b, a, q);
        assert(t_node(a, q));
    }
}

proof fn lemma_pctx_len<V>(n: NfaBuilder<u8, V>)
    requires pctx(n),
    ensures 2 <= n.states@.len() <= u32::MAX as nat + 1,
{ reveal(pctx); }
// the path of a child
proof fn lemma_path_child<V>(n: NfaBuilder<u8, V>, s: int, c: u8)
    requires pctx(n), 0 <= s < n.states@.len(), nfa_edges(n, s).contains_key(c),
    ensures ({ let t = nfa_edges(n, s)[c] as int; 2 <= t < n.states@.len() && s < t && s != 1 && nfa_parent(n, t) == (s, c)
        && path(n, t) == path(n, s).push(c) && nfa_depth(n, t) == nfa_depth(n, s) + 1 }),
{
    reveal(pctx);
    let t = nfa_edges(n, s)[c] as int;
    assert(nfa_parent(n, t) == (s, c));
    assert(nfa_parent_ok(n, t, nfa_parent(n, t)));
}
proof fn lemma_depth_is_path_len<V>(n: NfaBuilder<u8, V>, s: int)
    requires pctx(n), 0 <= s < n.states@.len(), s != 1,
    ensures path(n, s).len() == nfa_depth(n, s), walk(n, path(n, s)) == Some(s),
{
    reveal(pctx);
    lemma_walk_path(n, s);
}

// ---- the queue ----
spec fn closed<V>(n: NfaBuilder<u8, V>, qs: Seq<u32>, u: int) -> bool {
    forall|c: u8| #[trigger] nfa_edges(n, u).contains_key(c) ==> in_q(qs, nfa_edges(n, u)[c] as int)
}
// entries are states below the root, pairwise distinct, shallower first
#[verifier::opaque]
spec fn q_basic<V>(n: NfaBuilder<u8, V>, qs: Seq<u32>) -> bool {
    &&& forall|i: int| 0 <= i < qs.len() ==> 2 <= #[trigger] qs[i] < n.states@.len()
    &&& forall|i: int, j: int| 0 <= i < j < qs.len() ==> qs[i] != qs[j]
    &&& forall|i: int, j: int| 0 <= i <= j < qs.len() ==> nfa_depth(n, qs[i] as int) <= nfa_depth(n, qs[j] as int)
}
// the children of the root and of the first d entries are in the queue; so are the children of entry d along the labels in ps
#[verifier::opaque]
spec fn q_closed<V>(n: NfaBuilder<u8, V>, qs: Seq<u32>, d: int, ps: Set<u8>) -> bool {
    &&& closed(n, qs, 0)
    &&& forall|i: int| 0 <= i < d ==> closed(n, qs, #[trigger] qs[i] as int)
    &&& d < qs.len() ==> forall|c: u8| ps.contains(c) ==> nfa_edges(n, qs[d] as int).contains_key(c) && in_q(qs, nfa_edges(n, qs[d] as int)[c] as int)
}
// ... and nothing else is in the queue
spec fn prov_at<V>(n: NfaBuilder<u8, V>, qs: Seq<u32>, d: int, ps: Set<u8>, j: int) -> bool {
    let p = nfa_parent(n, qs[j] as int);
    p.0 == 0 || (exists|i: int| 0 <= i < d && #[trigger] qs[i] == p.0) || (d < qs.len() && p.0 == qs[d] && ps.contains(p.1))
}
#[verifier::opaque]
spec fn q_prov<V>(n: NfaBuilder<u8, V>, qs: Seq<u32>, d: int, ps: Set<u8>) -> bool {
    forall|j: int| 0 <= j < qs.len() ==> #[trigger] prov_at(n, qs, d, ps, j)
}
// no entry is more than one level below entry d
#[verifier::opaque]
spec fn q_bound<V>(n: NfaBuilder<u8, V>, qs: Seq<u32>, d: int) -> bool {
    d < qs.len() ==> forall|j: int| 0 <= j < qs.len() ==> nfa_depth(n, #[trigger] qs[j] as int) <= nfa_depth(n, qs[d] as int) + 1
}
spec fn bfs_inv<V>(n: NfaBuilder<u8, V>, qs: Seq<u32>, d: int, ps: Set<u8>) -> bool {
    0 <= d <= qs.len() && q_basic(n, qs) && q_closed(n, qs, d, ps) && q_prov(n, qs, d, ps) && q_bound(n, qs, d)
}

proof fn lemma_q_entry<V>(n: NfaBuilder<u8, V>, qs: Seq<u32>, i: int)
    requires q_basic(n, qs), 0 <= i < qs.len(),
    ensures 2 <= qs[i] < n.states@.len(),
{ reveal(q_basic); }

proof fn lemma_in_q_push(qs: Seq<u32>, t: u32, u: int)
    requires in_q(qs, u) || u == t,
    ensures in_q(qs.push(t), u),
{
    if in_q(qs, u) {
        let i = choose|i: int| 0 <= i < qs.len() && #[trigger] qs[i] == u;
        assert(qs.push(t)[i] == u);
    } else {
        assert(qs.push(t)[qs.len() as int] == u);
    }
}

// the child along a label not handled yet is not in the queue; pushing it keeps the invariant
proof fn lemma_bfs_push<V>(n: NfaBuilder<u8, V>, qs: Seq<u32>, d: int, ps: Set<u8>, c: u8)
    requires pctx(n), bfs_inv(n, qs, d, ps), d < qs.len(), nfa_edges(n, qs[d] as int).contains_key(c), !ps.contains(c),
    ensures ({ let t = nfa_edges(n, qs[d] as int)[c];
        !in_q(qs, t as int) && bfs_inv(n, qs.push(t), d, ps.insert(c)) && 2 <= t < n.states@.len() && qs[d] < t }),
{
    let s = qs[d] as int;
    let t = nfa_edges(n, s)[c];
    let q2 = qs.push(t);
    let p2 = ps.insert(c);
    lemma_q_entry(n, qs, d);
    lemma_path_child(n, s, c);
    assert(!in_q(qs, t as int)) by {
        if in_q(qs, t as int) {
            let j = choose|j: int| 0 <= j < qs.len() && #[trigger] qs[j] == t as int;
            reveal(q_prov);
            assert(prov_at(n, qs, d, ps, j));
            reveal(q_basic);
            if exists|i: int| 0 <= i < d && #[trigger] qs[i] == s {
                let i = choose|i: int| 0 <= i < d && #[trigger] qs[i] == s;
                assert(qs[i] != qs[d]);
            }
        }
    }
    assert(q_basic(n, q2)) by {
        reveal(q_basic); reveal(q_bound);
        assert forall|i: int, j: int| 0 <= i < j < q2.len() implies q2[i] != q2[j] by {
            if j == qs.len() { assert(qs[i] == q2[i]); }
        }
        assert forall|i: int, j: int| 0 <= i <= j < q2.len() implies nfa_depth(n, q2[i] as int) <= nfa_depth(n, q2[j] as int) by {
            if j == qs.len() && i < qs.len() { assert(qs[i] == q2[i]); }
        }
    }
    assert(q_closed(n, q2, d, p2)) by {
        reveal(q_closed);
        assert forall|u: int| closed(n, qs, u) implies closed(n, q2, u) by {
            assert forall|c2: u8| #[trigger] nfa_edges(n, u).contains_key(c2) implies in_q(q2, nfa_edges(n, u)[c2] as int) by {
                lemma_in_q_push(qs, t, nfa_edges(n, u)[c2] as int);
            }
        }
        assert forall|i: int| 0 <= i < d implies closed(n, q2, #[trigger] q2[i] as int) by { assert(q2[i] == qs[i]); assert(closed(n, qs, qs[i] as int)); }
        assert(q2[d] == qs[d]);
        assert forall|c2: u8| p2.contains(c2) implies nfa_edges(n, q2[d] as int).contains_key(c2) && in_q(q2, nfa_edges(n, q2[d] as int)[c2] as int) by {
            if c2 == c { lemma_in_q_push(qs, t, t as int); } else { assert(ps.contains(c2)); lemma_in_q_push(qs, t, nfa_edges(n, s)[c2] as int); }
        }
    }
    assert(q_prov(n, q2, d, p2)) by {
        reveal(q_prov);
        assert(q2[d] == qs[d]);
        assert forall|j: int| 0 <= j < q2.len() implies #[trigger] prov_at(n, q2, d, p2, j) by {
            if j < qs.len() {
                assert(q2[j] == qs[j]);
                assert(prov_at(n, qs, d, ps, j));
                let p = nfa_parent(n, qs[j] as int);
                if exists|i: int| 0 <= i < d && #[trigger] qs[i] == p.0 {
                    let i = choose|i: int| 0 <= i < d && #[trigger] qs[i] == p.0;
                    assert(q2[i] == p.0);
                }
            }
        }
    }
    assert(q_bound(n, q2, d)) by {
        reveal(q_bound);
        assert(q2[d] == qs[d]);
        assert forall|j: int| 0 <= j < q2.len() implies nfa_depth(n, #[trigger] q2[j] as int) <= nfa_depth(n, q2[d] as int) + 1 by {
            if j < qs.len() { assert(q2[j] == qs[j]); }
        }
    }
}

// all children of entry d handled: entry d is done
proof fn lemma_bfs_next<V>(n: NfaBuilder<u8, V>, qs: Seq<u32>, d: int, ps: Set<u8>)
    requires pctx(n), bfs_inv(n, qs, d, ps), d < qs.len(), forall|c: u8| nfa_edges(n, qs[d] as int).contains_key(c) ==> ps.contains(c),
    ensures bfs_inv(n, qs, d + 1, Set::<u8>::empty()),
{
    let e = Set::<u8>::empty();
    assert(q_closed(n, qs, d + 1, e)) by {
        reveal(q_closed);
        assert forall|c: u8| #[trigger] nfa_edges(n, qs[d] as int).contains_key(c) implies in_q(qs, nfa_edges(n, qs[d] as int)[c] as int) by {
            assert(ps.contains(c));
        }
        assert(closed(n, qs, qs[d] as int));
    }
    assert(q_prov(n, qs, d + 1, e)) by {
        reveal(q_prov);
        assert forall|j: int| 0 <= j < qs.len() implies #[trigger] prov_at(n, qs, d + 1, e, j) by {
            assert(prov_at(n, qs, d, ps, j));
            let p = nfa_parent(n, qs[j] as int);
            if exists|i: int| 0 <= i < d && #[trigger] qs[i] == p.0 {
                let i = choose|i: int| 0 <= i < d && #[trigger] qs[i] == p.0;
                assert(0 <= i < d + 1 && qs[i] == p.0);
            } else if p.0 != 0 {
                assert(0 <= d < d + 1 && qs[d] == p.0);
            }
        }
    }
    assert(q_bound(n, qs, d + 1)) by {
        reveal(q_bound); reveal(q_basic);
        if d + 1 < qs.len() {
            assert(nfa_depth(n, qs[d] as int) <= nfa_depth(n, qs[d + 1] as int));
        }
    }
}

// the queue after the children of the root have been pushed (ks: the labels in the order of the pushes)
proof fn lemma_bfs_start<V>(n: NfaBuilder<u8, V>, qs: Seq<u32>, ks: Seq<u8>)
    requires pctx(n), ks.no_duplicates(), ks.len() == qs.len(), nfa_edges(n, 0).dom().finite(), qs.len() == nfa_edges(n, 0).dom().len(),
        forall|i: int| 0 <= i < ks.len() ==> nfa_edges(n, 0).contains_key(#[trigger] ks[i]) && nfa_edges(n, 0)[ks[i]] == qs[i],
    ensures bfs_inv(n, qs, 0, Set::<u8>::empty()),
{
    let e = Set::<u8>::empty();
    lemma_pctx_len(n);
    let dom = nfa_edges(n, 0).dom();
    // every label of the root is listed
    ks.unique_seq_to_set();
    assert(ks.to_set().subset_of(dom)) by {
        assert forall|c: u8| ks.to_set().contains(c) implies dom.contains(c) by {
            let i = choose|i: int| 0 <= i < ks.len() && ks[i] == c;
            assert(nfa_edges(n, 0).contains_key(ks[i]));
        }
    }
    vstd::set_lib::lemma_len_subset(ks.to_set(), dom);
    vstd::set_lib::lemma_subset_equality(ks.to_set(), dom);
    assert forall|i: int| 0 <= i < qs.len() implies 2 <= #[trigger] qs[i] < n.states@.len() && nfa_parent(n, qs[i] as int) == (0int, ks[i]) && nfa_depth(n, qs[i] as int) == 1 by {
        lemma_path_child(n, 0, ks[i]);
    }
    assert(q_basic(n, qs)) by {
        reveal(q_basic);
        assert forall|i: int, j: int| 0 <= i < j < qs.len() implies qs[i] != qs[j] by {
            if qs[i] == qs[j] { assert(ks[i] == ks[j]); }
        }
    }
    assert(q_closed(n, qs, 0, e)) by {
        reveal(q_closed);
        assert forall|c: u8| #[trigger] nfa_edges(n, 0).contains_key(c) implies in_q(qs, nfa_edges(n, 0)[c] as int) by {
            assert(ks.to_set().contains(c));
            let i = choose|i: int| 0 <= i < ks.len() && ks[i] == c;
            assert(qs[i] == nfa_edges(n, 0)[c]);
        }
    }
    assert(q_prov(n, qs, 0, e)) by { reveal(q_prov); }
    assert(q_bound(n, qs, 0)) by { reveal(q_bound); }
}

// while entry d is being handled, every state at most as deep as it is in the queue already
proof fn lemma_shallow_in_q<V>(n: NfaBuilder<u8, V>, qs: Seq<u32>, d: int, ps: Set<u8>, u: int)
    requires pctx(n), bfs_inv(n, qs, d, ps), d < qs.len(), 2 <= u < n.states@.len(), nfa_depth(n, u) <= nfa_depth(n, qs[d] as int),
    ensures in_q(qs, u),
    decreases u,
{
    let p = nfa_parent(n, u);
    assert(nfa_parent_ok(n, u, p)) by { reveal(pctx); }
    lemma_path_child(n, p.0, p.1);
    if p.0 == 0 {
        reveal(q_closed);
        assert(nfa_edges(n, 0).contains_key(p.1));
    } else {
        lemma_shallow_in_q(n, qs, d, ps, p.0);
        let i = choose|i: int| 0 <= i < qs.len() && #[trigger] qs[i] == p.0;
        reveal(q_basic);
        if i >= d { assert(nfa_depth(n, qs[d] as int) <= nfa_depth(n, qs[i] as int)); }
        reveal(q_closed);
        assert(closed(n, qs, qs[i] as int));
        assert(nfa_edges(n, qs[i] as int).contains_key(p.1));
    }
}

// the finished queue lists every state below the root
proof fn lemma_all_in_q<V>(n: NfaBuilder<u8, V>, qs: Seq<u32>, u: int)
    requires pctx(n), bfs_inv(n, qs, qs.len() as int, Set::<u8>::empty()), 2 <= u < n.states@.len(),
    ensures in_q(qs, u),
    decreases u,
{
    let p = nfa_parent(n, u);
    assert(nfa_parent_ok(n, u, p)) by { reveal(pctx); }
    lemma_path_child(n, p.0, p.1);
    reveal(q_closed);
    if p.0 == 0 {
        assert(nfa_edges(n, 0).contains_key(p.1));
    } else {
        lemma_all_in_q(n, qs, p.0);
        let i = choose|i: int| 0 <= i < qs.len() && #[trigger] qs[i] == p.0;
        assert(closed(n, qs, qs[i] as int));
        assert(nfa_edges(n, qs[i] as int).contains_key(p.1));
    }
}

// counting: distinct entries inside 2..len
proof fn lemma_q_len_bound<V>(n: NfaBuilder<u8, V>, qs: Seq<u32>)
    requires q_basic(n, qs), n.states@.len() >= 2,
    ensures qs.len() + 2 <= n.states@.len(),
{
    reveal(q_basic);
    let len = n.states@.len() as int;
    let f = |i: int| qs[i] as int;
    let a = vstd::set_lib::set_int_range(0, qs.len() as int);
    let r = vstd::set_lib::set_int_range(2, len);
    vstd::set_lib::lemma_int_range(0, qs.len() as int);
    vstd::set_lib::lemma_int_range(2, len);
    let b = a.map(f);
    assert forall|x: int, y: int| a.contains(x) && a.contains(y) && f(x) == f(y) implies x == y by {
        if x < y { assert(qs[x] != qs[y]); } else if y < x { assert(qs[y] != qs[x]); }
    }
    vstd::set_lib::lemma_map_size(a, b, f);
    assert(b.subset_of(r)) by {
        assert forall|y: int| b.contains(y) implies r.contains(y) by {
            let x = choose|x: int| a.contains(x) && f(x) == y;
            assert(2 <= qs[x] < len);
        }
    }
    vstd::set_lib::lemma_len_subset(b, r);
}
proof fn lemma_q_count<V>(n: NfaBuilder<u8, V>, qs: Seq<u32>)
    requires q_basic(n, qs), n.states@.len() >= 2, forall|u: int| 2 <= u < n.states@.len() ==> in_q(qs, u),
    ensures qs.len() + 2 == n.states@.len(),
{
    reveal(q_basic);
    lemma_q_len_bound(n, qs);
    let len = n.states@.len() as int;
    let f = |i: int| qs[i] as int;
    let a = vstd::set_lib::set_int_range(0, qs.len() as int);
    let r = vstd::set_lib::set_int_range(2, len);
    vstd::set_lib::lemma_int_range(0, qs.len() as int);
    vstd::set_lib::lemma_int_range(2, len);
    let b = a.map(f);
    assert forall|x: int, y: int| a.contains(x) && a.contains(y) && f(x) == f(y) implies x == y by {
        if x < y { assert(qs[x] != qs[y]); } else if y < x { assert(qs[y] != qs[x]); }
    }
    vstd::set_lib::lemma_map_size(a, b, f);
    assert(r.subset_of(b)) by {
        assert forall|y: int| r.contains(y) implies b.contains(y) by {
            assert(in_q(qs, y));
            let i = choose|i: int| 0 <= i < qs.len() && #[trigger] qs[i] == y;
            assert(a.contains(i) && f(i) == y);
        }
    }
    vstd::set_lib::lemma_len_subset(r, b);
}

// ---- fail links ----
// a child of the root falls back to the root
proof fn lemma_fail_depth1<V>(n: NfaBuilder<u8, V>, t: int)
    requires pctx(n), 2 <= t < n.states@.len(), nfa_parent(n, t).0 == 0,
    ensures fail_ok(n, t, 0),
{
    let p = nfa_parent(n, t);
    assert(nfa_parent_ok(n, t, p)) by { reveal(pctx); }
    lemma_path_child(n, 0, p.1);
    assert(path(n, 0).len() == 0);
    assert(path(n, t).len() == 1);
    assert(is_suffix(path(n, 0), path(n, t)));
}

// fail(t) for the child t = s --c--> : the longest trie-node suffix of path(fail(s)) + c
proof fn lemma_fail_from_nd<V>(n: NfaBuilder<u8, V>, s: int, c: u8, f: int, r: int)
    requires pctx(n), 2 <= s < n.states@.len(), nfa_edges(n, s).contains_key(c), fail_ok(n, s, f), nd_ok(n, f, c, r),
    ensures fail_ok(n, nfa_edges(n, s)[c] as int, r),
{
    let t = nfa_edges(n, s)[c] as int;
    lemma_path_child(n, s, c);
    reveal(nd_ok);
    let ps = path(n, s); let pf = path(n, f); let pr = path(n, r); let pt = path(n, t);
    lemma_suffix_push(pf, ps, c);
    lemma_suffix_trans(pr, pf.push(c), pt);
    assert(pr.len() <= pf.len() + 1);
    assert forall|q: Seq<u8>| is_suffix(q, pt) && q.len() < pt.len() && #[trigger] t_node(n, q) implies q.len() <= pr.len() by {
        if q.len() > 0 {
            lemma_suffix_drop(q, ps, c);
            let q1 = q.drop_last();
            lemma_node_prefix(n, q);
            assert(t_node(n, q1));
            assert(q1.len() < ps.len());
            assert(q1.len() <= pf.len());
            lemma_suffix_of_suffix(q1, pf, ps);
            lemma_suffix_push(q1, pf, c);
            assert(q1.push(c) =~= q);
            assert(is_suffix(q, pf.push(c)));
        }
    }
}

// one step of the fail chase: from f (no c-edge, below the root) to fail(f)
proof fn lemma_chase_step<V>(n: NfaBuilder<u8, V>, f: int, c: u8, g: int, r: int)
    requires pctx(n), 2 <= f < n.states@.len(), !nfa_edges(n, f).contains_key(c), fail_ok(n, f, g), nd_ok(n, g, c, r),
    ensures nd_ok(n, f, c, r),
{
    reveal(pctx);
    lemma_nd_step(n, f, c, g, r);
}
proof fn lemma_chase_edge<V>(n: NfaBuilder<u8, V>, f: int, c: u8)
    requires pctx(n), 0 <= f < n.states@.len(), f != 1, nfa_edges(n, f).contains_key(c),
    ensures nd_ok(n, f, c, nfa_edges(n, f)[c] as int),
{
    reveal(pctx);
    lemma_nd_edge(n, f, c);
}
proof fn lemma_chase_root<V>(n: NfaBuilder<u8, V>, c: u8)
    requires pctx(n), !nfa_edges(n, 0).contains_key(c),
    ensures nd_ok(n, 0, c, 0),
{
    reveal(pctx);
    lemma_nd_root(n, c);
}
proof fn lemma_fail_ok_facts<V>(n: NfaBuilder<u8, V>, s: int, f: int)
    requires pctx(n), 2 <= s < n.states@.len(), fail_ok(n, s, f),
    ensures 0 <= f < n.states@.len(), f != 1, nfa_depth(n, f) < nfa_depth(n, s),
{
    lemma_depth_is_path_len(n, s);
    lemma_depth_is_path_len(n, f);
}

// what the pass has established so far: the builder b differs from the trie n in fail links only; queued states carry their final,
// correct fail link; all other states still have the initial one
#[verifier::opaque]
spec fn fails_inv<V>(n: NfaBuilder<u8, V>, b: NfaBuilder<u8, V>, qs: Seq<u32>) -> bool {
    &&& passes_frame(n, b) && b.outputs@ == n.outputs@
    &&& forall|s: int| 0 <= s < n.states@.len() ==> (#[trigger] b.states@[s]).output_pos.is_none() && b.states@[s].fail < n.states@.len()
    &&& b.states@[0].fail == 0
    &&& forall|j: int| 0 <= j < qs.len() ==> 2 <= #[trigger] qs[j] < n.states@.len() && fail_ok(n, qs[j] as int, b.states@[qs[j] as int].fail as int)
}
proof fn lemma_fails_frame<V>(n: NfaBuilder<u8, V>, b: NfaBuilder<u8, V>, qs: Seq<u32>)
    requires fails_inv(n, b, qs),
    ensures passes_frame(n, b), b.outputs@ == n.outputs@, b.states@.len() == n.states@.len(), b.states@[0].fail == 0,
        forall|s: int| 0 <= s < n.states@.len() ==> (#[trigger] b.states@[s]).output_pos.is_none() && b.states@[s].fail < n.states@.len()
            && nfa_edges(b, s) == nfa_edges(n, s) && t_edges(b, s) == nfa_edges(n, s),
{ reveal(fails_inv); }
proof fn lemma_fails_get<V>(n: NfaBuilder<u8, V>, b: NfaBuilder<u8, V>, qs: Seq<u32>, u: int)
    requires fails_inv(n, b, qs), in_q(qs, u),
    ensures fail_ok(n, u, b.states@[u].fail as int),
{
    reveal(fails_inv);
    let j = choose|j: int| 0 <= j < qs.len() && #[trigger] qs[j] == u;
}
// b2 is b with the fail link of t (not queued yet) set to f
spec fn set_fail<V>(b: NfaBuilder<u8, V>, b2: NfaBuilder<u8, V>, t: int, f: u32) -> bool {
    &&& b2.states@.len() == b.states@.len() && b2.outputs@ == b.outputs@ && b2.len == b.len && b2.match_kind == b.match_kind && b2.skipped == b.skipped
    &&& forall|x: int| 0 <= x < b.states@.len() && x != t ==> #[trigger] b2.states@[x] == b.states@[x]
    &&& b2.states@[t].edges@ == b.states@[t].edges@ && b2.states@[t].output == b.states@[t].output && b2.states@[t].output_pos == b.states@[t].output_pos
    &&& b2.states@[t].fail == f
}
proof fn lemma_fails_set<V>(n: NfaBuilder<u8, V>, b: NfaBuilder<u8, V>, b2: NfaBuilder<u8, V>, qs: Seq<u32>, t: u32, f: u32)
    requires pctx(n), fails_inv(n, b, qs), 2 <= t < n.states@.len(), !in_q(qs, t as int), set_fail(b, b2, t as int, f), fail_ok(n, t as int, f as int),
    ensures fails_inv(n, b2, qs.push(t)),
{
    reveal(fails_inv);
    let q2 = qs.push(t);
    assert forall|j: int| 0 <= j < q2.len() implies 2 <= #[trigger] q2[j] < n.states@.len() && fail_ok(n, q2[j] as int, b2.states@[q2[j] as int].fail as int) by {
        if j < qs.len() {
            assert(q2[j] == qs[j]);
            assert(qs[j] != t);
        }
    }
    assert forall|s: int| 0 <= s < n.states@.len() implies (#[trigger] b2.states@[s]).output_pos.is_none() && b2.states@[s].fail < n.states@.len() by {
        if s != t { assert(b2.states@[s] == b.states@[s]); }
    }
    assert forall|x: int| 0 <= x < n.states@.len() implies (#[trigger] b2.states@[x]).edges@ == n.states@[x].edges@ && b2.states@[x].output == n.states@[x].output by {
        if x != t { assert(b2.states@[x] == b.states@[x]); }
    }
}
// the start: nothing queued, all fail links initial
proof fn lemma_fails_start<V>(n: NfaBuilder<u8, V>)
    requires fresh_links(n), n.states@.len() >= 2,
    ensures fails_inv(n, n, Seq::<u32>::empty()),
{ reveal(fails_inv); }
// children of the root keep the initial link
proof fn lemma_fails_push_root_child<V>(n: NfaBuilder<u8, V>, qs: Seq<u32>, c: u8)
    requires pctx(n), fresh_links(n), fails_inv(n, n, qs), nfa_edges(n, 0).contains_key(c),
    ensures fails_inv(n, n, qs.push(nfa_edges(n, 0)[c])),
{
    reveal(fails_inv);
    let t = nfa_edges(n, 0)[c];
    lemma_pctx_len(n);
    lemma_path_child(n, 0, c);
    lemma_fail_depth1(n, t as int);
    let q2 = qs.push(t);
    assert forall|j: int| 0 <= j < q2.len() implies 2 <= #[trigger] q2[j] < n.states@.len() && fail_ok(n, q2[j] as int, n.states@[q2[j] as int].fail as int) by {
        if j < qs.len() { assert(q2[j] == qs[j]); }
    }
}

// the end of build_fails: from the loop invariants to the contract
proof fn lemma_fails_finish<V>(n: NfaBuilder<u8, V>, b: NfaBuilder<u8, V>, qs: Seq<u32>)
    requires pctx(n), fails_inv(n, b, qs), bfs_inv(n, qs, qs.len() as int, Set::<u8>::empty()), n.states@.len() > 2,
    ensures passes_frame(n, b), fails_ok(b, false), queue_ok(b, qs), b.outputs@ == n.outputs@, ac_fail(b), fail_suffix(b),
        forall|s: int| 0 <= s < n.states@.len() ==> (#[trigger] b.states@[s]).output_pos.is_none(),
{
    reveal(pctx);
    lemma_fails_frame(n, b, qs);
    let len = n.states@.len() as int;
    assert forall|u: int| 2 <= u < len implies in_q(qs, u) by { reveal(pctx); lemma_all_in_q(n, qs, u); }
    lemma_q_count(n, qs);
    assert forall|t: int| 0 <= t < len implies nfa_depth(b, t) == nfa_depth(n, t) && path(b, t) == path(n, t) by { lemma_path_same(n, b, t); }
    assert forall|s: int| 2 <= s < len implies fail_ok(b, s, (#[trigger] b.states@[s]).fail as int) && fail_ok(n, s, b.states@[s].fail as int) by {
        lemma_fails_get(n, b, qs, s);
        lemma_fail_ok_same(n, b, s, b.states@[s].fail as int);
    }
    assert(ac_fail(b)) by { reveal(ac_fail); }
    assert(fail_suffix(b));
    assert(nfa_links(b, false)) by {
        assert forall|s: int| 0 <= s < b.states@.len() && s != 1 && s != 0 implies ({
            let f = (#[trigger] b.states@[s]).fail as int;
            (f != 1 && 0 <= f < b.states@.len() && nfa_depth(b, f) < nfa_depth(b, s))
        }) by {
            assert(fail_ok(n, s, b.states@[s].fail as int));
            lemma_fail_ok_facts(n, s, b.states@[s].fail as int);
        }
    }
    assert(queue_ok(b, qs)) by {
        reveal(q_basic);
    }
}

// ---- output positions (build_outputs) ----
// entries pushed later do not change an output list that starts inside the old vector
proof fn lemma_chain_push<V>(outs: Seq<Output<V>>, x: Output<V>, o: nat, end: nat)
    requires o <= outs.len(),
    ensures chain(outs.push(x), o, end) == chain(outs, o, end),
    decreases o,
{
    let o2 = outs.push(x);
    if o == 0 { } else {
        assert(o2[o - 1] == outs[o - 1]);
        if out_parent(outs[o - 1]) >= o { } else {
            lemma_chain_push(outs, x, out_parent(outs[o - 1]), end);
        }
    }
}
// the registered suffixes of a path only depend on the trie and its outputs
proof fn lemma_suf_same<V>(a: NfaBuilder<u8, V>, b: NfaBuilder<u8, V>, p: Seq<u8>, i: nat, end: nat)
    requires passes_frame(a, b), trie_ok(a),
    ensures suf_matches(b, p, i, end) == suf_matches(a, p, i, end),
    decreases p.len() - i,
{
    if i < p.len() {
        let w = p.skip(i as int);
        assert forall|t: int| 0 <= t < a.states@.len() implies #[trigger] t_edges(b, t) == t_edges(a, t) by { }
        lemma_walk_same_edges(b, a, w);
        if walk(a, w).is_some() { lemma_walk_range(a, w); }
        lemma_suf_same(a, b, p, i + 1, end);
    }
}
// the registered proper suffixes of path(s) are the registered suffixes of path(fail(s))
proof fn lemma_suf_fail<V>(n: NfaBuilder<u8, V>, s: int, f: int, end: nat)
    requires pctx(n), 2 <= s < n.states@.len(), fail_ok(n, s, f),
    ensures suf_matches(n, path(n, s), 1, end) == suf_matches(n, path(n, f), 0, end),
{
    let p = path(n, s);
    lemma_depth_is_path_len(n, s);
    assert(nfa_parent_ok(n, s, nfa_parent(n, s))) by { reveal(pctx); }
    lemma_path_child(n, nfa_parent(n, s).0, nfa_parent(n, s).1);
    assert(p.len() >= 1);
    let w = p.skip(1);
    assert(is_suffix(w, p));
    assert(ls_ok(n, w, f)) by {
        reveal(ls_ok);
        lemma_suffix_of_suffix(path(n, f), w, p);
        assert forall|q: Seq<u8>| is_suffix(q, w) && #[trigger] t_node(n, q) implies q.len() <= path(n, f).len() by {
            lemma_suffix_trans(q, w, p);
        }
    }
    lemma_suf_shift(n, p, w, 0, end);
    lemma_suf_longest(n, w, f, 0, end);
}

// what the output pass has established after the first i queue entries; n: the builder as the fail pass left it
#[verifier::opaque]
spec fn outs_inv<V>(n: NfaBuilder<u8, V>, b: NfaBuilder<u8, V>, qs: Seq<u32>, i: int) -> bool {
    &&& passes_frame(n, b)
    &&& forall|s: int| 0 <= s < n.states@.len() ==> (#[trigger] b.states@[s]).fail == n.states@[s].fail
    &&& b.outputs@.len() <= i
    &&& forall|s: int| 0 <= s < n.states@.len() ==> opt_n((#[trigger] b.states@[s]).output_pos) <= b.outputs@.len()
    &&& forall|j: int| 0 <= j < b.outputs@.len() ==> out_parent(#[trigger] b.outputs@[j]) <= j
    &&& forall|s: int| 0 <= s < n.states@.len() && !in_q(qs.take(i), s) ==> (#[trigger] b.states@[s]).output_pos.is_none()
}
// ... and, for Aho-Corasick fail links, the output list of every handled state
#[verifier::opaque]
spec fn outs_ac<V>(n: NfaBuilder<u8, V>, b: NfaBuilder<u8, V>, qs: Seq<u32>, i: int) -> bool {
    forall|j: int, end: nat| 0 <= j < i ==> #[trigger] chain(b.outputs@, opt_n(b.states@[qs[j] as int].output_pos), end) == suf_matches(n, path(n, qs[j] as int), 0, end)
}
proof fn lemma_outs_frame<V>(n: NfaBuilder<u8, V>, b: NfaBuilder<u8, V>, qs: Seq<u32>, i: int)
    requires outs_inv(n, b, qs, i),
    ensures passes_frame(n, b), b.states@.len() == n.states@.len(), b.outputs@.len() <= i,
        forall|s: int| 0 <= s < n.states@.len() ==> (#[trigger] b.states@[s]).fail == n.states@[s].fail && b.states@[s].output == n.states@[s].output
            && opt_n(b.states@[s].output_pos) <= b.outputs@.len(),
{ reveal(outs_inv); }
proof fn lemma_outs_start<V>(n: NfaBuilder<u8, V>, qs: Seq<u32>)
    requires n.outputs@.len() == 0, forall|s: int| 0 <= s < n.states@.len() ==> (#[trigger] n.states@[s]).output_pos.is_none(),
    ensures outs_inv(n, n, qs, 0), outs_ac(n, n, qs, 0),
{ reveal(outs_inv); reveal(outs_ac); }

// the hypotheses of the output pass in one opaque bundle
#[verifier::opaque]
spec fn octx<V>(n: NfaBuilder<u8, V>, qs: Seq<u32>) -> bool { pctx(n) && queue_ok(n, qs) && fails_ok(n, true) && fail_suffix(n) && n.states@.len() <= u32::MAX as nat + 1 }
proof fn lemma_octx_entry<V>(n: NfaBuilder<u8, V>, qs: Seq<u32>, i: int)
    requires octx(n, qs), 0 <= i < qs.len(),
    ensures ({ let f = n.states@[qs[i] as int].fail as int; 2 <= qs[i] < n.states@.len() && 0 <= f < n.states@.len() && f != qs[i] && qs.len() + 2 == n.states@.len()
        && n.states@.len() <= u32::MAX as nat + 1 }),
{
    reveal(octx);
    lemma_fail_earlier(n, qs, i);
}
// the fail target of queue entry i is the root, the dead state, or an earlier entry
proof fn lemma_fail_earlier<V>(n: NfaBuilder<u8, V>, qs: Seq<u32>, i: int)
    requires queue_ok(n, qs), fails_ok(n, true), 0 <= i < qs.len(),
    ensures ({ let f = n.states@[qs[i] as int].fail as int; 0 <= f < n.states@.len() && f != qs[i] && (f < 2 || in_q(qs.take(i), f)) }),
{
    let s = qs[i] as int;
    let f = n.states@[s].fail as int;
    assert(n.states@[s].fail < n.states@.len());
    if f >= 2 {
        assert(nfa_depth(n, f) < nfa_depth(n, s));
        assert(in_q(qs, f));
        let j = choose|j: int| 0 <= j < qs.len() && #[trigger] qs[j] == f;
        if j >= i { assert(nfa_depth(n, qs[i] as int) <= nfa_depth(n, qs[j] as int)); }
        assert(qs.take(i)[j] == f);
    }
}

// b2 is b with the output position of t set to p and, when x is given, x appended to the outputs
spec fn set_opos<V>(b: NfaBuilder<u8, V>, b2: NfaBuilder<u8, V>, t: int, p: Option<NonZeroU32>, x: Option<Output<V>>) -> bool {
    &&& b2.states@.len() == b.states@.len() && b2.len == b.len && b2.match_kind == b.match_kind && b2.skipped == b.skipped
    &&& b2.outputs@ == (match x { Some(o) => b.outputs@.push(o), None => b.outputs@ })
    &&& forall|y: int| 0 <= y < b.states@.len() && y != t ==> #[trigger] b2.states@[y] == b.states@[y]
    &&& b2.states@[t].edges@ == b.states@[t].edges@ && b2.states@[t].output == b.states@[t].output && b2.states@[t].fail == b.states@[t].fail
    &&& b2.states@[t].output_pos == p
}
proof fn lemma_take_push(qs: Seq<u32>, i: int, u: int)
    requires 0 <= i < qs.len(),
    ensures in_q(qs.take(i + 1), u) <==> (in_q(qs.take(i), u) || qs[i] == u),
{
    let a = qs.take(i); let b = qs.take(i + 1);
    if in_q(b, u) {
        let j = choose|j: int| 0 <= j < b.len() && #[trigger] b[j] == u;
        if j < i { assert(a[j] == u); }
    }
    if in_q(a, u) {
        let j = choose|j: int| 0 <= j < a.len() && #[trigger] a[j] == u;
        assert(b[j] == u);
    }
    if qs[i] == u { assert(b[i] == u); }
}
// what handling queue entry i does to the builder: the state gets its own fresh record (parent: the list of its fail target) or inherits the list of its fail target
spec fn outs_step_rel<V>(n: NfaBuilder<u8, V>, b: NfaBuilder<u8, V>, b2: NfaBuilder<u8, V>, qs: Seq<u32>, i: int) -> bool {
    let s = qs[i] as int; let f = n.states@[s].fail as int;
    match n.states@[s].output {
        Some(o) => b.outputs@.len() < u32::MAX && set_opos(b, b2, s, b2.states@[s].output_pos, Some(Output { value: o.0, length: o.1@, parent: b.states@[f].output_pos }))
                     && opt_n(b2.states@[s].output_pos) == b.outputs@.len() + 1,
        None => set_opos(b, b2, s, b.states@[f].output_pos, None),
    }
}
// one queue entry handled
proof fn lemma_outs_step<V>(n: NfaBuilder<u8, V>, b: NfaBuilder<u8, V>, b2: NfaBuilder<u8, V>, qs: Seq<u32>, i: int)
    requires octx(n, qs), outs_inv(n, b, qs, i), 0 <= i < qs.len(),
        outs_step_rel(n, b, b2, qs, i),
    ensures outs_inv(n, b2, qs, i + 1),
{
    reveal(outs_inv); reveal(octx);
    let s = qs[i] as int; let f = n.states@[s].fail as int;
    lemma_fail_earlier(n, qs, i);
    assert(2 <= s < n.states@.len());
    assert forall|y: int| 0 <= y < n.states@.len() implies (#[trigger] b2.states@[y]).edges@ == n.states@[y].edges@ && b2.states@[y].output == n.states@[y].output
        && b2.states@[y].fail == n.states@[y].fail && opt_n(b2.states@[y].output_pos) <= b2.outputs@.len() by {
        if y != s { assert(b2.states@[y] == b.states@[y]); }
        assert(opt_n(b.states@[f].output_pos) <= b.outputs@.len());
    }
    assert forall|j: int| 0 <= j < b2.outputs@.len() implies out_parent(#[trigger] b2.outputs@[j]) <= j by {
        if j < b.outputs@.len() { assert(b2.outputs@[j] == b.outputs@[j]); }
        else { assert(opt_n(b.states@[f].output_pos) <= b.outputs@.len()); }
    }
    assert forall|y: int| 0 <= y < n.states@.len() && !in_q(qs.take(i + 1), y) implies (#[trigger] b2.states@[y]).output_pos.is_none() by {
        lemma_take_push(qs, i, y);
        assert(b2.states@[y] == b.states@[y]);
    }
}
// ... and its output list, for Aho-Corasick fail links
proof fn lemma_outs_ac_step<V>(n: NfaBuilder<u8, V>, b: NfaBuilder<u8, V>, b2: NfaBuilder<u8, V>, qs: Seq<u32>, i: int)
    requires octx(n, qs), ac_fail(n), outs_inv(n, b, qs, i), outs_ac(n, b, qs, i), 0 <= i < qs.len(),
        outs_step_rel(n, b, b2, qs, i),
    ensures outs_ac(n, b2, qs, i + 1),
{
    reveal(outs_inv); reveal(outs_ac); reveal(octx);
    let s = qs[i] as int; let f = n.states@[s].fail as int;
    lemma_fail_earlier(n, qs, i);
    lemma_ac_fail(n, s);
    assert(fail_ok(n, s, f));
    let outs = b.outputs@; let outs2 = b2.outputs@;
    // lists that start inside the old vector are unchanged
    assert forall|o: nat, end: nat| o <= outs.len() implies chain(outs2, o, end) == chain(outs, o, end) by {
        match n.states@[s].output { Some(x) => { lemma_chain_push(outs, Output { value: x.0, length: x.1@, parent: b.states@[f].output_pos }, o, end); }, None => { } }
    }
    // the list of the fail target
    assert forall|end: nat| chain(outs, opt_n(b.states@[f].output_pos), end) == suf_matches(n, path(n, f), 0, end) by {
        if f == 0 {
            assert(!in_q(qs.take(i), 0)) by {
                if in_q(qs.take(i), 0) { let j = choose|j: int| 0 <= j < qs.take(i).len() && #[trigger] qs.take(i)[j] == 0; assert(qs[j] == 0); }
            }
            assert(b.states@[0].output_pos.is_none());
            assert(path(n, 0).len() == 0);
        } else {
            let j = choose|j: int| 0 <= j < qs.take(i).len() && #[trigger] qs.take(i)[j] == f;
            assert(qs[j] == f);
        }
    }
    assert forall|j: int, end: nat| 0 <= j < i + 1 implies #[trigger] chain(outs2, opt_n(b2.states@[qs[j] as int].output_pos), end) == suf_matches(n, path(n, qs[j] as int), 0, end) by {
        if j < i {
            assert(qs[j] != qs[i]);
            assert(b2.states@[qs[j] as int] == b.states@[qs[j] as int]);
            assert(opt_n(b.states@[qs[j] as int].output_pos) <= outs.len());
        } else {
            let p = path(n, s);
            lemma_depth_is_path_len(n, s);
            lemma_suf_fail(n, s, f, end);
            assert(p.skip(0) =~= p);
            assert(opt_n(b.states@[f].output_pos) <= outs.len());
            match n.states@[s].output {
                Some(x) => {
                    let k = outs.len() as int;
                    assert(outs2[k].parent == b.states@[f].output_pos);
                    assert(out_parent(outs2[k]) < k + 1);
                    assert(is_registered(n, p));
                    assert(reg_match(n, p, end) == mk_match(outs2[k], end));
                    assert(chain(outs2, (k + 1) as nat, end) =~= seq![mk_match(outs2[k], end)] + chain(outs2, out_parent(outs2[k]), end));
                }
                None => {
                    assert(!is_registered(n, p));
                }
            }
        }
    }
}
// the end of build_outputs
proof fn lemma_outs_finish<V>(n: NfaBuilder<u8, V>, b: NfaBuilder<u8, V>, qs: Seq<u32>)
    requires octx(n, qs), outs_inv(n, b, qs, qs.len() as int), ac_fail(n) ==> outs_ac(n, b, qs, qs.len() as int),
    ensures passes_frame(n, b), nfa_outs_ok(b),
        forall|s: int| 0 <= s < n.states@.len() ==> (#[trigger] b.states@[s]).fail == n.states@[s].fail,
        ac_fail(n) ==> ac_fail(b) && ac_outs(b),
{
    reveal(outs_inv); reveal(octx); reveal(pctx);
    assert(nfa_outs_ok(b)) by {
        assert forall|t: int| 0 <= t < b.states@.len() implies opt_n((#[trigger] b.states@[t]).output_pos) <= b.outputs@.len() by {
            assert(opt_n(b.states@[t].output_pos) <= b.outputs@.len());
        }
    }
    if ac_fail(n) {
        reveal(outs_ac);
        assert(ac_fail(b)) by {
            reveal(ac_fail);
            assert forall|s: int| 2 <= s < b.states@.len() implies fail_ok(b, s, (#[trigger] b.states@[s]).fail as int) by {
                assert(fail_ok(n, s, n.states@[s].fail as int));
                lemma_fail_ok_same(n, b, s, n.states@[s].fail as int);
            }
        }
        assert(ac_outs(b)) by {
            reveal(ac_outs);
            assert forall|s: int, end: nat| 0 <= s < b.states@.len() && s != 1 implies
                #[trigger] chain(b.outputs@, opt_n(b.states@[s].output_pos), end) == suf_matches(b, path(b, s), 0, end) by {
                lemma_path_same(n, b, s);
                lemma_suf_same(n, b, path(n, s), 0, end);
                if s == 0 {
                    assert(!in_q(qs.take(qs.len() as int), 0)) by {
                        if in_q(qs.take(qs.len() as int), 0) { let j = choose|j: int| 0 <= j < qs.take(qs.len() as int).len() && #[trigger] qs.take(qs.len() as int)[j] == 0; assert(qs[j] == 0); }
                    }
                    assert(b.states@[0].output_pos.is_none());
                    assert(path(n, 0).len() == 0);
                } else {
                    assert(in_q(qs, s));
                    let j = choose|j: int| 0 <= j < qs.len() && #[trigger] qs[j] == s;
                }
            }
        }
    }
}

// ---- leftmost fail links (build_fails_leftmost): dead, or strictly shallower ----
spec fn link_ok<V>(n: NfaBuilder<u8, V>, s: int, f: int) -> bool {
    f == 1 || (fail_ok(n, s, f) && nfa_depth(n, f) < nfa_depth(n, s))
}
// link facts for the chase of build_fails_leftmost
proof fn lemma_link_from_fail_ok<V>(n: NfaBuilder<u8, V>, s: int, f: int)
    requires pctx(n), 2 <= s < n.states@.len(), fail_ok(n, s, f),
    ensures link_ok(n, s, f),
{ lemma_fail_ok_facts(n, s, f); }
proof fn lemma_link_facts<V>(n: NfaBuilder<u8, V>, s: int, f: int)
    requires pctx(n), 2 <= s < n.states@.len(), link_ok(n, s, f), f != 1,
    ensures 0 <= f < n.states@.len(), fail_ok(n, s, f), nfa_depth(n, f) < nfa_depth(n, s), is_suffix(path(n, f), path(n, s)),
{ }
#[verifier::opaque]
spec fn lm_inv<V>(n: NfaBuilder<u8, V>, b: NfaBuilder<u8, V>, qs: Seq<u32>) -> bool {
    &&& passes_frame(n, b) && b.outputs@ == n.outputs@
    &&& forall|s: int| 0 <= s < n.states@.len() ==> (#[trigger] b.states@[s]).output_pos.is_none() && b.states@[s].fail < n.states@.len()
    &&& b.states@[0].fail == 0
    &&& forall|j: int| 0 <= j < qs.len() ==> 2 <= #[trigger] qs[j] < n.states@.len() && link_ok(n, qs[j] as int, b.states@[qs[j] as int].fail as int)
}
proof fn lemma_lm_frame<V>(n: NfaBuilder<u8, V>, b: NfaBuilder<u8, V>, qs: Seq<u32>)
    requires lm_inv(n, b, qs),
    ensures passes_frame(n, b), b.outputs@ == n.outputs@, b.states@.len() == n.states@.len(), b.states@[0].fail == 0,
        forall|s: int| 0 <= s < n.states@.len() ==> (#[trigger] b.states@[s]).output_pos.is_none() && b.states@[s].fail < n.states@.len()
            && nfa_edges(b, s) == nfa_edges(n, s) && t_edges(b, s) == nfa_edges(n, s) && b.states@[s].output == n.states@[s].output,
{ reveal(lm_inv); }
proof fn lemma_lm_get<V>(n: NfaBuilder<u8, V>, b: NfaBuilder<u8, V>, qs: Seq<u32>, u: int)
    requires lm_inv(n, b, qs), in_q(qs, u),
    ensures link_ok(n, u, b.states@[u].fail as int),
{
    reveal(lm_inv);
    let j = choose|j: int| 0 <= j < qs.len() && #[trigger] qs[j] == u;
}
proof fn lemma_lm_start<V>(n: NfaBuilder<u8, V>)
    requires fresh_links(n), n.states@.len() >= 2,
    ensures lm_inv(n, n, Seq::<u32>::empty()),
{ reveal(lm_inv); }
proof fn lemma_lm_push_root_child<V>(n: NfaBuilder<u8, V>, qs: Seq<u32>, c: u8)
    requires pctx(n), fresh_links(n), lm_inv(n, n, qs), nfa_edges(n, 0).contains_key(c),
    ensures lm_inv(n, n, qs.push(nfa_edges(n, 0)[c])),
{
    reveal(lm_inv);
    let t = nfa_edges(n, 0)[c];
    lemma_pctx_len(n);
    lemma_path_child(n, 0, c);
    lemma_fail_depth1(n, t as int);
    lemma_link_from_fail_ok(n, t as int, 0);
    let q2 = qs.push(t);
    assert forall|j: int| 0 <= j < q2.len() implies 2 <= #[trigger] q2[j] < n.states@.len() && link_ok(n, q2[j] as int, n.states@[q2[j] as int].fail as int) by {
        if j < qs.len() { assert(q2[j] == qs[j]); }
    }
}
// a queued state with an output gets the dead link
proof fn lemma_lm_mark<V>(n: NfaBuilder<u8, V>, b: NfaBuilder<u8, V>, b2: NfaBuilder<u8, V>, qs: Seq<u32>, s: int)
    requires lm_inv(n, b, qs), 2 <= s < n.states@.len(), set_fail(b, b2, s, 1),
    ensures lm_inv(n, b2, qs),
{
    reveal(lm_inv);
    assert forall|j: int| 0 <= j < qs.len() implies 2 <= #[trigger] qs[j] < n.states@.len() && link_ok(n, qs[j] as int, b2.states@[qs[j] as int].fail as int) by {
        if qs[j] != s { assert(b2.states@[qs[j] as int] == b.states@[qs[j] as int]); }
    }
    assert forall|y: int| 0 <= y < n.states@.len() implies (#[trigger] b2.states@[y]).output_pos.is_none() && b2.states@[y].fail < n.states@.len()
        && b2.states@[y].edges@ == n.states@[y].edges@ && b2.states@[y].output == n.states@[y].output by {
        if y != s { assert(b2.states@[y] == b.states@[y]); }
    }
}
proof fn lemma_lm_set<V>(n: NfaBuilder<u8, V>, b: NfaBuilder<u8, V>, b2: NfaBuilder<u8, V>, qs: Seq<u32>, t: u32, f: u32)
    requires lm_inv(n, b, qs), 2 <= t < n.states@.len(), !in_q(qs, t as int), set_fail(b, b2, t as int, f), link_ok(n, t as int, f as int),
    ensures lm_inv(n, b2, qs.push(t)),
{
    reveal(lm_inv);
    let q2 = qs.push(t);
    assert forall|j: int| 0 <= j < q2.len() implies 2 <= #[trigger] q2[j] < n.states@.len() && link_ok(n, q2[j] as int, b2.states@[q2[j] as int].fail as int) by {
        if j < qs.len() {
            assert(q2[j] == qs[j]);
            assert(qs[j] != t);
        }
    }
    assert forall|y: int| 0 <= y < n.states@.len() implies (#[trigger] b2.states@[y]).output_pos.is_none() && b2.states@[y].fail < n.states@.len()
        && b2.states@[y].edges@ == n.states@[y].edges@ && b2.states@[y].output == n.states@[y].output by {
        if y != t { assert(b2.states@[y] == b.states@[y]); }
    }
}
proof fn lemma_lm_finish<V>(n: NfaBuilder<u8, V>, b: NfaBuilder<u8, V>, qs: Seq<u32>)
    requires pctx(n), lm_inv(n, b, qs), bfs_inv(n, qs, qs.len() as int, Set::<u8>::empty()), n.states@.len() > 2,
    ensures passes_frame(n, b), fails_ok(b, true), queue_ok(b, qs), b.outputs@ == n.outputs@, fail_suffix(b), lm_fail_ok(b),
        forall|s: int| 0 <= s < n.states@.len() ==> (#[trigger] b.states@[s]).output_pos.is_none(),
{
    reveal(pctx);
    lemma_lm_frame(n, b, qs);
    let len = n.states@.len() as int;
    assert forall|u: int| 2 <= u < len implies in_q(qs, u) by { lemma_all_in_q(n, qs, u); }
    lemma_q_count(n, qs);
    assert forall|t: int| 0 <= t < len implies nfa_depth(b, t) == nfa_depth(n, t) && path(b, t) == path(n, t) by { lemma_path_same(n, b, t); }
    assert(fail_suffix(b)) by {
        assert forall|s: int| 2 <= s < b.states@.len() implies ({ let f = (#[trigger] b.states@[s]).fail as int; f == 1 || (0 <= f < b.states@.len() && is_suffix(path(b, f), path(b, s))) }) by {
            lemma_lm_get(n, b, qs, s);
        }
    }
    assert(nfa_links(b, true)) by {
        assert forall|s: int| 0 <= s < b.states@.len() && s != 1 && s != 0 implies ({
            let f = (#[trigger] b.states@[s]).fail as int;
            (f != 1 && 0 <= f < b.states@.len() && nfa_depth(b, f) < nfa_depth(b, s)) || f == 1
        }) by {
            lemma_lm_get(n, b, qs, s);
        }
    }
    assert(lm_fail_ok(b)) by {
        assert forall|s: int| 2 <= s < b.states@.len() implies ((#[trigger] b.states@[s]).fail == 1 || fail_ok(b, s, b.states@[s].fail as int)) by {
            lemma_lm_get(n, b, qs, s);
            if b.states@[s].fail != 1 { lemma_fail_ok_same(n, b, s, b.states@[s].fail as int); }
        }
    }
    assert(queue_ok(b, qs)) by { reveal(q_basic); }
}

// ... and, for every kind, the record behind the output position of every handled state
#[verifier::opaque]
spec fn outs_sound<V>(n: NfaBuilder<u8, V>, b: NfaBuilder<u8, V>, qs: Seq<u32>, i: int) -> bool {
    forall|j: int| 0 <= j < i ==> opos_rec_ok(n, b.outputs@, #[trigger] qs[j] as int, opt_n(b.states@[qs[j] as int].output_pos))
}
proof fn lemma_outs_sound_start<V>(n: NfaBuilder<u8, V>, qs: Seq<u32>)
    ensures outs_sound(n, n, qs, 0),
{ reveal(outs_sound); }
proof fn lemma_outs_sound_step<V>(n: NfaBuilder<u8, V>, b: NfaBuilder<u8, V>, b2: NfaBuilder<u8, V>, qs: Seq<u32>, i: int)
    requires octx(n, qs), outs_inv(n, b, qs, i), outs_sound(n, b, qs, i), 0 <= i < qs.len(), outs_step_rel(n, b, b2, qs, i),
    ensures outs_sound(n, b2, qs, i + 1),
{
    reveal(outs_inv); reveal(outs_sound); reveal(octx);
    let s = qs[i] as int; let f = n.states@[s].fail as int;
    lemma_fail_earlier(n, qs, i);
    let outs = b.outputs@; let outs2 = b2.outputs@;
    assert forall|j: int| 0 <= j < i + 1 implies opos_rec_ok(n, outs2, #[trigger] qs[j] as int, opt_n(b2.states@[qs[j] as int].output_pos)) by {
        let t = qs[j] as int;
        if j < i {
            assert(qs[j] != qs[i]);
            assert(b2.states@[t] == b.states@[t]);
            let o = opt_n(b.states@[t].output_pos);
            assert(o <= outs.len());
            if o != 0 {
                assert(outs2[o - 1] == outs[o - 1]);
                let q = choose|q: Seq<u8>| is_suffix(q, path(n, t)) && #[trigger] rec_of(n, q, outs[o - 1]);
                assert(rec_of(n, q, outs2[o - 1]));
            }
            assert(opos_rec_ok(n, outs2, t, opt_n(b2.states@[t].output_pos)));
        } else {
            assert(t == s);
            match n.states@[s].output {
                Some(x) => {
                    let k = outs.len() as int;
                    let p = path(n, s);
                    lemma_depth_is_path_len(n, s);
                    assert(is_suffix(p, p));
                    assert(is_registered(n, p));
                    assert(outs2[k] == (Output { value: x.0, length: x.1@, parent: b.states@[f].output_pos }));
                    assert(reg_out(n, p) == Some(x));
                    assert(rec_of(n, p, outs2[k]));
                    assert(opt_n(b2.states@[s].output_pos) == k + 1);
                    let o = (k + 1) as nat;
                    assert(outs2.len() == k + 1);
                    assert(rec_of(n, p, outs2[o - 1]));
                    assert(opos_rec_ok(n, outs2, s, o));
                }
                None => {
                    let o = opt_n(b.states@[f].output_pos);
                    if o != 0 {
                        assert(f >= 2) by {
                            if f < 2 {
                                assert(!in_q(qs.take(i), f)) by {
                                    if in_q(qs.take(i), f) { let jj = choose|jj: int| 0 <= jj < qs.take(i).len() && #[trigger] qs.take(i)[jj] == f; assert(qs[jj] == f); }
                                }
                                assert(b.states@[f].output_pos.is_none());
                            }
                        }
                        let jf = choose|jf: int| 0 <= jf < qs.take(i).len() && #[trigger] qs.take(i)[jf] == f;
                        assert(qs[jf] == f);
                        assert(opos_rec_ok(n, outs, qs[jf] as int, opt_n(b.states@[qs[jf] as int].output_pos)));
                        let q = choose|q: Seq<u8>| is_suffix(q, path(n, f)) && #[trigger] rec_of(n, q, outs[o - 1]);
                        assert(is_suffix(path(n, f), path(n, s)));
                        lemma_suffix_trans(q, path(n, f), path(n, s));
                        assert(outs2 == outs);
                        assert(rec_of(n, q, outs2[o - 1]));
                    }
                    assert(b2.states@[s].output_pos == b.states@[f].output_pos);
                    assert(opos_rec_ok(n, outs2, s, o));
                }
            }
        }
    }
}
proof fn lemma_octx_facts<V>(n: NfaBuilder<u8, V>, qs: Seq<u32>)
    requires octx(n, qs),
    ensures pctx(n), queue_ok(n, qs), fail_suffix(n), trie_ok(n),
{ reveal(octx); reveal(pctx); }
proof fn lemma_pctx_path_same<V>(n: NfaBuilder<u8, V>, b: NfaBuilder<u8, V>, t: int)
    requires pctx(n), passes_frame(n, b), 0 <= t < n.states@.len(),
    ensures path(b, t) == path(n, t),
{ reveal(pctx); lemma_path_same(n, b, t); }
proof fn lemma_rec_same<V>(n: NfaBuilder<u8, V>, b: NfaBuilder<u8, V>, q: Seq<u8>, r: Output<V>)
    requires passes_frame(n, b), trie_ok(n), rec_of(n, q, r),
    ensures rec_of(b, q, r),
{
    assert forall|t: int| 0 <= t < n.states@.len() implies #[trigger] t_edges(b, t) == t_edges(n, t) by { }
    lemma_walk_same_edges(b, n, q);
    lemma_walk_range(n, q);
}
proof fn lemma_outs_root_none<V>(n: NfaBuilder<u8, V>, b: NfaBuilder<u8, V>, qs: Seq<u32>)
    requires outs_inv(n, b, qs, qs.len() as int), queue_ok(n, qs),
    ensures b.states@[0].output_pos.is_none(),
{
    reveal(outs_inv);
    assert(!in_q(qs.take(qs.len() as int), 0)) by {
        if in_q(qs.take(qs.len() as int), 0) { let j = choose|j: int| 0 <= j < qs.take(qs.len() as int).len() && #[trigger] qs.take(qs.len() as int)[j] == 0; assert(qs[j] == 0); }
    }
}
proof fn lemma_outs_sound_get<V>(n: NfaBuilder<u8, V>, b: NfaBuilder<u8, V>, qs: Seq<u32>, s: int)
    requires outs_sound(n, b, qs, qs.len() as int), in_q(qs, s),
    ensures opos_rec_ok(n, b.outputs@, s, opt_n(b.states@[s].output_pos)),
{
    reveal(outs_sound);
    let j = choose|j: int| 0 <= j < qs.len() && #[trigger] qs[j] == s;
}
proof fn lemma_outs_sound_finish<V>(n: NfaBuilder<u8, V>, b: NfaBuilder<u8, V>, qs: Seq<u32>)
    requires octx(n, qs), outs_inv(n, b, qs, qs.len() as int), outs_sound(n, b, qs, qs.len() as int),
    ensures fail_suffix(b), opos_sound(b),
{
    lemma_octx_facts(n, qs);
    lemma_outs_frame(n, b, qs, qs.len() as int);
    assert forall|t: int| 0 <= t < n.states@.len() implies path(b, t) == path(n, t) by { lemma_pctx_path_same(n, b, t); }
    assert(fail_suffix(b)) by {
        assert forall|s: int| 2 <= s < b.states@.len() implies ({ let f = (#[trigger] b.states@[s]).fail as int; f == 1 || (0 <= f < b.states@.len() && is_suffix(path(b, f), path(b, s))) }) by {
            assert(b.states@[s].fail == n.states@[s].fail);
            let f0 = (n.states@[s]).fail as int;
        }
    }
    lemma_outs_root_none(n, b, qs);
    assert forall|s: int| 0 <= s < b.states@.len() && s != 1 implies opos_rec_ok(b, b.outputs@, s, opt_n((#[trigger] b.states@[s]).output_pos)) by {
        let o = opt_n(b.states@[s].output_pos);
        if o != 0 {
            assert(s != 0);
            assert(in_q(qs, s));
            lemma_outs_sound_get(n, b, qs, s);
            let q = choose|q: Seq<u8>| is_suffix(q, path(n, s)) && #[trigger] rec_of(n, q, b.outputs@[o - 1]);
            lemma_rec_same(n, b, q, b.outputs@[o - 1]);
        }
    }
}
