// ---- ghost vocabulary for the byte-wise double-array construction (bytewise/builder.rs) ----
spec fn b_inv(b: DoubleArrayAhoCorasickBuilder, h: BuildHelper) -> bool {
    &&& h_wf(h)
    &&& h.block_len == 256
    &&& h.num_blocks >= 1
    &&& b.states@.len() == h_hi(h)
    &&& forall|j: int| (j == 0 || j == 1) && h_active(h, j) ==> h_used_index(h, j)
    // da_safe part: every BASE points into the array
    &&& forall|i: int| 0 <= i < b.states@.len() ==> ((#[trigger] b.states@[i]).base.is_some() ==> b.states@[i].base.unwrap()@ < b.states@.len())
}

// base ^ c stays in base's 256-slot block, hence in the active window if base is
proof fn lemma_same_block(b: u32, c: u8, lo: int, hi: int)
    requires lo <= b < hi, lo % 256 == 0, hi % 256 == 0, 0 <= lo, hi <= u32::MAX,
    ensures lo <= (b ^ (c as u32)) < hi, (b ^ (c as u32)) / 256 == b / 256,
{
    let x = b ^ (c as u32);
    assert((b ^ (c as u32)) >> 8 == b >> 8) by(bit_vector);
    assert(x >> 8 == x / 256) by(bit_vector);
    assert(b >> 8 == b / 256) by(bit_vector);
    let q = (b / 256) as int;
    assert(q * 256 <= b < q * 256 + 256);
    assert(q * 256 <= x < q * 256 + 256);
    // lo <= b and lo multiple of 256 => lo <= q*256
    assert(lo <= q * 256) by {
        let ql = lo / 256;
        assert(lo == ql * 256);
        if ql > q { assert(ql * 256 >= (q + 1) * 256) by (nonlinear_arith) requires ql >= q + 1; }
        assert(ql * 256 <= q * 256) by (nonlinear_arith) requires ql <= q;
    }
    assert(q * 256 + 256 <= hi) by {
        let qh = hi / 256;
        assert(hi == qh * 256);
        if qh <= q { assert(qh * 256 <= q * 256) by (nonlinear_arith) requires qh <= q; }
        assert(qh * 256 >= (q + 1) * 256) by (nonlinear_arith) requires qh >= q + 1;
    }
}

proof fn lemma_xor_inj(b: u32, c: u8, d: u8)
    requires (b ^ (c as u32)) == (b ^ (d as u32)),
    ensures c == d,
{
    assert((b ^ (c as u32)) == (b ^ (d as u32)) ==> c == d) by(bit_vector);
}

// the window after one more block (block_len == 256): hi grows by one block, lo grows by one block iff the window was full
proof fn lemma_lo_step(h0: BuildHelper, h1: BuildHelper)
    requires h0.block_len == 256, h1.block_len == 256, h1.num_blocks == h0.num_blocks + 1, h1.num_free_blocks == h0.num_free_blocks,
    ensures h_hi(h1) == h_hi(h0) + 256,
        h0.num_blocks >= h0.num_free_blocks ==> h_lo(h0) == (h0.num_blocks - h0.num_free_blocks) * 256 && h_lo(h1) == h_lo(h0) + 256
            && h_lo(h0) / 256 == h0.num_blocks - h0.num_free_blocks,
        h0.num_blocks < h0.num_free_blocks ==> h_lo(h0) == 0 && h_lo(h1) == 0,
{
    let nb = h0.num_blocks as int; let nf = h0.num_free_blocks as int;
    assert((nb + 1) * 256 == nb * 256 + 256) by (nonlinear_arith);
    if nb >= nf {
        assert((nb + 1 - nf) * 256 == (nb - nf) * 256 + 256) by (nonlinear_arith);
        assert(((nb - nf) * 256) / 256 == nb - nf) by (nonlinear_arith);
    }
}
