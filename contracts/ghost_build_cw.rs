// ---- ghost vocabulary for the char-wise double-array construction (charwise/builder.rs) ----
spec fn cb_inv(b: CharwiseDoubleArrayAhoCorasickBuilder, h: BuildHelper) -> bool {
    &&& h_wf(h)
    &&& h.block_len == b.block_len
    &&& pow2(b.block_len) && b.block_len >= 2 && b.mapper.alphabet_size <= b.block_len
    &&& h.num_blocks >= 1
    &&& b.states@.len() == h_hi(h)
    &&& forall|j: int| (j == 0 || j == 1) && h_active(h, j) ==> h_used_index(h, j)
    &&& forall|i: int| 0 <= i < b.states@.len() ==> ((#[trigger] b.states@[i]).base.is_some() ==> b.states@[i].base.unwrap()@ < b.states@.len())
}

spec fn cwb_used(inv: Map<int, int>, h: BuildHelper) -> bool {
    forall|y: int| #[trigger] inv.contains_key(y) && h_active(h, y) ==> h_used_index(h, y)
}
